#!/bin/sh
# tools/runmutant.sh <diff> <ID> [tier] [extra zsim options] : apply a mutant to /repo, run the check, always revert.
set -u
diff="$1"; id="$2"; tier="${3:-quick}"; shift; shift; [ $# -gt 0 ] && shift
cd /repo
if ! git apply "$diff" 2>/dev/null; then
  # the change was written against an earlier HEAD (later fix: commits touched neighbouring lines):
  # apply with fuzz, discard rejects; a change that still does not apply is reported
  if ! patch -p1 -s --fuzz=3 --no-backup-if-mismatch -r - < "$diff" >/dev/null 2>&1; then
    git checkout -- . ; echo "cannot apply $diff"; exit 3
  fi
fi
cd /verif && ./check "$id" "$tier" --no-evidence "$@" > "/verif/.cache/mutant.out" 2>&1; rc=$?
cd /repo && git checkout -- .
grep -E "^(VIOLATION|violation:|HARNESS-ERROR|OK )" /verif/.cache/mutant.out | cut -c1-400 | head -8
echo "exit=$rc  ($(basename $diff) vs $id $tier)"
exit $rc
