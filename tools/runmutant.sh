#!/bin/sh
# tools/runmutant.sh <diff> <ID> [tier] [extra zsim options] : apply a mutant to /repo, run the check, always revert.
set -u
diff="$1"; id="$2"; tier="${3:-quick}"; shift; shift; [ $# -gt 0 ] && shift
cd /repo && git apply "$diff" || { echo "cannot apply $diff"; exit 3; }
cd /verif && ./check "$id" "$tier" --no-evidence "$@" > "/verif/.cache/mutant.out" 2>&1; rc=$?
cd /repo && git checkout -- .
grep -E "^(VIOLATION|violation:|HARNESS-ERROR|OK )" /verif/.cache/mutant.out | cut -c1-400 | head -8
echo "exit=$rc  ($(basename $diff) vs $id $tier)"
exit $rc
