#!/bin/sh
# tools/sensitivity.sh [pattern] – run every hand-made mutant (mutants/<prop>-*.diff) and every confirmed
# sub-agent change (seeded/*/patch.diff) against the quick tier of its property (through /repo: apply,
# check, revert) and write sensitivity.json.  Long (about a minute per change).
set -u
cd /verif
pat="${1:-}"
out=/verif/.cache/sensitivity.tsv; : > $out
for f in mutants/*.diff seeded/*/patch.diff; do
  case "$f" in *"$pat"*) ;; *) continue;; esac
  case "$f" in
    mutants/*) n=$(basename $f .diff); id=$(echo $n | cut -d- -f1 | tr a-z A-Z) ;;
    *) n=$(basename $(dirname $f)); id=$(python3 -c "import json;print(json.load(open('$(dirname $f)/meta.json'))['property'])") ;;
  esac
  tools/runmutant.sh /verif/$f $id quick --no-shrink > /verif/.cache/sens.log 2>&1; rc=$?
  v=$(grep -E "^violation:" /verif/.cache/sens.log | head -1 | sed -E 's/^violation: clause=([^ ]+) field=([^ ]+).*/\1 \/ \2/' | cut -c1-120)
  printf "%s\t%s\t%s\t%s\n" "$n" "$id" "$rc" "$v" | tee -a $out
done
python3 - <<'PY'
import json
rows=[l.rstrip("\n").split("\t") for l in open("/verif/.cache/sensitivity.tsv")]
json.dump([{"change":r[0],"property":r[1],"quick_exit":int(r[2]),"first_violation":r[3] if len(r)>3 else ""} for r in rows],open("/verif/sensitivity.json","w"),indent=1)
print(sum(1 for r in rows if r[2]=="1"),"of",len(rows),"changes caught by the quick tier")
PY
