#!/bin/sh
# tools/recheck_direct.sh <name> : rebuild the patched zerv of seeded/<name> in /tmp/wt-confirm and run the current
# quick (then capped thorough) check against that binary without touching /repo; updates meta.json
set -u
# the scratch worktree is created on demand (and should be removed again when a batch is done:
# git -C /repo worktree remove --force /tmp/wt-confirm)
[ -d /tmp/wt-confirm ] || git -C /repo worktree add --detach /tmp/wt-confirm HEAD >/dev/null 2>&1
name="$1"; out="/verif/seeded/$name"
id=$(python3 -c "import json;print(json.load(open('$out/meta.json'))['property'])")
cd /tmp/wt-confirm && git checkout -q -- . && git apply "$out/patch.diff" && cargo build --offline --bin zerv >/dev/null 2>&1 && cp target/debug/zerv /tmp/wt-confirm.zerv-patched; git checkout -q -- .
cd /verif
run() { ZSIM_VERIF_DIR=/verif ZSIM_ZERV=/tmp/wt-confirm.zerv-patched ZSIM_SHIM=/verif/.cache/clock.so ZSIM_PROXY=/verif/zsim/target/release/zsim-git /verif/zsim/target/release/zsim run "$id" "$@" --no-evidence; }
run quick > /tmp/recheck.log 2>&1; q=$?
caught=none; detail=$(grep -E "^violation:" /tmp/recheck.log | head -2 | cut -c1-300)
if [ $q -eq 1 ]; then caught=quick; else run thorough --cap 420 > /tmp/recheck2.log 2>&1; t=$?; if [ $t -eq 1 ]; then caught=thorough; detail=$(grep -E "^violation:" /tmp/recheck2.log | head -2 | cut -c1-300); fi; fi
python3 - "$out" "$q" "$caught" "$detail" <<'PY'
import json,sys
out,q,caught,detail=sys.argv[1:5]
m=json.load(open(out+"/meta.json"))
prev=m["checks"]
m.setdefault("history",[]).append({"caught_by":prev.get("caught_by"),"quick_exit":prev.get("quick_exit"),"note":"earlier measurement"})
m["checks"]={"quick_exit":int(q),"caught_by":caught,"first_violation":detail,"ran":[f"zsim run {m['property']} quick against the patched binary (/repo untouched)"]}
json.dump(m,open(out+"/meta.json","w"),indent=1)
print(m["name"],"->",caught,"(quick exit",q+")")
PY
