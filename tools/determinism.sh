#!/bin/sh
# tools/determinism.sh <ID> [runs]  – the same seeds executed three times (16 workers on /dev/shm,
# 3 workers on /dev/shm, 16 workers under another scratch root) must give identical per-run
# event-log digests (DESIGN.md §3.7).
set -u
id="$1"; n="${2:-600}"; tier="${3:-quick}"
cd /verif
D=$(mktemp -d /dev/shm/zsim-det.XXXXXX)
mkdir -p "$D/alt"
./check "$id" "$tier" --runs "$n" --workers 16 --no-evidence --no-shrink --digests "$D/a" >/dev/null 2>&1
./check "$id" "$tier" --runs "$n" --workers 3  --no-evidence --no-shrink --digests "$D/b" >/dev/null 2>&1
ZSIM_SCRATCH="$D/alt" ./check "$id" "$tier" --runs "$n" --workers 16 --no-evidence --no-shrink --digests "$D/c" >/dev/null 2>&1
na=$(wc -l < "$D/a")
if [ "$na" -ne "$n" ]; then echo "DETERMINISM-ERROR: only $na digests"; rm -rf "$D"; exit 2; fi
if cmp -s "$D/a" "$D/b" && cmp -s "$D/a" "$D/c"; then
  echo "deterministic: $n runs of $id x 3 executions (16 workers, 3 workers, other scratch root): identical event-log digests"
  rm -rf "$D"; exit 0
fi
echo "DETERMINISM-ERROR: digests differ"; diff "$D/a" "$D/b" | head -5; diff "$D/a" "$D/c" | head -5
rm -rf "$D"; exit 2
