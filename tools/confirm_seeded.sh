#!/bin/sh
# tools/confirm_seeded.sh <src dir with patch.diff, demo.sh, notes.txt> <property ID> <name>
# Confirms a seeded change independently in the scratch worktree /tmp/wt-confirm
# (compiles, existing suite unchanged, demo fails with / passes without), then runs the
# registered quick check (and, if that misses, a capped thorough check) against it by applying
# the patch to /repo and reverting straight afterwards.  Writes /verif/seeded/<name>/.
set -u
# the scratch worktree is created on demand (and should be removed again when a batch is done:
# git -C /repo worktree remove --force /tmp/wt-confirm)
[ -d /tmp/wt-confirm ] || git -C /repo worktree add --detach /tmp/wt-confirm HEAD >/dev/null 2>&1
src="$1"; id="$2"; name="$3"
WT=/tmp/wt-confirm
out="/verif/seeded/$name"; mkdir -p "$out"
cp "$src/patch.diff" "$src/demo.sh" "$out/"; [ -f "$src/notes.txt" ] && cp "$src/notes.txt" "$out/notes.txt"
chmod +x "$out/demo.sh"
cd "$WT" && git checkout -q -- . && git clean -qfd src tests 2>/dev/null
if ! git apply "$out/patch.diff"; then echo "patch does not apply"; exit 3; fi
compiles=false; suite=unknown; demo_patched=; demo_base=
if cargo build --offline --bin zerv >/tmp/wt-confirm.build.log 2>&1; then compiles=true; fi
if $compiles; then
  cargo nextest run --workspace --no-fail-fast --tool-config-file pb:/w/lib/nextest.toml --profile pb --test-threads 8 --offline >/tmp/wt-confirm.test.log 2>&1
  grep -E "^\s+FAIL" /tmp/wt-confirm.test.log | sed -E 's/.*\) +//' | sort -u > /tmp/wt-confirm.fails.txt
  if cmp -s /tmp/wt-confirm.fails.txt /verif/.cache/baseline-fails.txt; then suite=same-53-failures; else suite="DIFFERS: $(diff /tmp/wt-confirm.fails.txt /verif/.cache/baseline-fails.txt | head -5 | tr '\n' ' ')"; fi
  # (a hanging seeded change can leave processes of the previous patched binary behind)
  for pid in $(pgrep -f "^/tmp/wt-confirm.zerv-patched" 2>/dev/null); do kill -9 $pid 2>/dev/null; done
  rm -f /tmp/wt-confirm.zerv-patched
  cp target/debug/zerv /tmp/wt-confirm.zerv-patched
  ( cd "$out" && timeout 300 bash ./demo.sh /tmp/wt-confirm.zerv-patched >/tmp/wt-confirm.demo1.log 2>&1 ); demo_patched=$?
fi
git checkout -q -- .
# unchanged binary: the one the checks build from /repo (rebuilt here to be sure it is current)
( cd /verif && cargo build --offline --manifest-path /repo/Cargo.toml --bin zerv --target-dir /verif/.cache/zerv-target >/dev/null 2>&1 )
( cd "$out" && timeout 300 bash ./demo.sh /verif/.cache/zerv-target/debug/zerv >/tmp/wt-confirm.demo0.log 2>&1 ); demo_base=$?
echo "compiles=$compiles suite=$suite demo_patched_exit=$demo_patched demo_unchanged_exit=$demo_base"
# the registered checks
cd /verif
runcheck() { # tier, extra args...; SEEDED_DIRECT=1: do not touch /repo, hand the patched binary to the simulator
  tier="$1"; shift
  if [ "${SEEDED_DIRECT:-0}" = 1 ]; then
    ZSIM_VERIF_DIR=/verif ZSIM_ZERV=/tmp/wt-confirm.zerv-patched ZSIM_SHIM=/verif/.cache/clock.so ZSIM_PROXY="${SEEDED_ZSIM_DIR:-/verif/zsim/target/release}/zsim-git" \
      timeout 2400 "${SEEDED_ZSIM_DIR:-/verif/zsim/target/release}/zsim" run "$id" "$tier" --no-evidence "$@"
  else
    tools/runmutant.sh "$out/patch.diff" "$id" "$tier" "$@"
  fi
}
runcheck quick > /tmp/wt-confirm.check.log 2>&1; q=$?
caught_by=none; detail=$(grep -E "^violation:" /tmp/wt-confirm.check.log | head -2 | cut -c1-300)
if [ $q -eq 1 ]; then caught_by=quick; else
  runcheck thorough --cap 420 > /tmp/wt-confirm.check2.log 2>&1; t=$?
  if [ $t -eq 1 ]; then caught_by=thorough; detail=$(grep -E "^violation:" /tmp/wt-confirm.check2.log | head -2 | cut -c1-300); fi
fi
echo "quick_exit=$q caught_by=$caught_by"
python3 - "$out" "$id" "$name" "$compiles" "$suite" "$demo_patched" "$demo_base" "$q" "$caught_by" "$detail" <<'PY'
import json,sys
out,id_,name,compiles,suite,dp,db,q,caught,detail=sys.argv[1:11]
notes=""
try: notes=open(out+"/notes.txt").read()
except Exception: pass
meta={"property":id_,"name":name,"origin":"fresh sub-agent given only the property text and a scratch worktree",
 "needs_to_manifest":notes.strip().split("\n\n")[0][:1500] if notes else "",
 "confirmed":{"compiles":compiles=="true","existing_suite":suite,"demo_exit_with_change":int(dp) if dp else None,"demo_exit_without_change":int(db) if db else None,
   "ran":["git apply patch.diff in /tmp/wt-confirm; cargo build --offline --bin zerv","cargo nextest run --workspace --no-fail-fast --offline (failing set compared with the 53 baseline failures)","sh demo.sh <patched zerv> ; sh demo.sh <unchanged zerv>"]},
 "checks":{"quick_exit":int(q),"caught_by":caught,"first_violation":detail,"ran":[("zsim run (patched binary handed to the simulator, /repo untouched) " if __import__("os").environ.get("SEEDED_DIRECT")=="1" else "tools/runmutant.sh patch.diff ")+f"{id_} quick" ] + ([f"tools/runmutant.sh patch.diff {id_} thorough --cap 420"] if caught!="quick" else [])}}
json.dump(meta,open(out+"/meta.json","w"),indent=1)
PY
