#!/bin/sh
# tools/recheck_seeded.sh <name> : run the registered checks again against seeded/<name>/patch.diff and update meta.json
set -u
name="$1"; out="/verif/seeded/$name"
id=$(python3 -c "import json;print(json.load(open('$out/meta.json'))['property'])")
cd /verif
tools/runmutant.sh "$out/patch.diff" "$id" quick > /tmp/recheck.log 2>&1; q=$?
caught=none; detail=$(grep -E "^violation:" /tmp/recheck.log | head -2 | cut -c1-300)
if [ $q -eq 1 ]; then caught=quick; else
  tools/runmutant.sh "$out/patch.diff" "$id" thorough --cap 420 > /tmp/recheck2.log 2>&1; t=$?
  if [ $t -eq 1 ]; then caught=thorough; detail=$(grep -E "^violation:" /tmp/recheck2.log | head -2 | cut -c1-300); fi
fi
python3 - "$out" "$q" "$caught" "$detail" <<'PY'
import json,sys
out,q,caught,detail=sys.argv[1:5]
m=json.load(open(out+"/meta.json"))
prev=m["checks"]
m.setdefault("history",[]).append({"caught_by":prev.get("caught_by"),"quick_exit":prev.get("quick_exit")})
m["checks"]={"quick_exit":int(q),"caught_by":caught,"first_violation":detail,"ran":[f"tools/runmutant.sh patch.diff {m['property']} quick"]+([f"tools/runmutant.sh patch.diff {m['property']} thorough --cap 420"] if caught!="quick" else [])}
json.dump(m,open(out+"/meta.json","w"),indent=1)
print(m["name"],"->",caught)
PY
