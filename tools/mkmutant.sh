#!/bin/sh
# tools/mkmutant.sh <name> <file> <python-regex-or-literal old> <new>   (literal replace, first occurrence)
# Creates mutants/<name>.diff from a one-line literal replacement in /repo (repo left untouched).
set -eu
name="$1"; file="$2"; old="$3"; new="$4"
cd /repo
python3 - "$file" "$old" "$new" <<'PY'
import sys
f,old,new=sys.argv[1:4]
s=open(f).read()
assert old in s, "pattern not found: "+old
open(f,'w').write(s.replace(old,new,1))
PY
git diff > "/verif/mutants/$name.diff"
git checkout -- .
echo "mutants/$name.diff"
