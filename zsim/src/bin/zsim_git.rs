//! `zsim-git` – the only `git` a simulated zerv can see (DESIGN.md §3.3).
//!
//! Installed (symlinked) as `<run dir>/bin/git`; the run dir is named by `ZSIM_DIR`.
//! Per invocation, in order:
//!   1. k := number of lines already in `$ZSIM_DIR/trace` + 1 (invocations are sequential)
//!   2. append `k <TAB> decision <TAB> argv (JSON)` to the trace
//!   3. look k / the sub-command up in `$ZSIM_DIR/plan` and act
//! The plan is a line based text file written by the simulator:
//!   budget <B>                 every invocation with k >= B fails (step budget)
//!   benign <shuffle|blank|warn> <seed>
//!   fault <k> <kind>           k = invocation index, or `*` for every invocation
//!   mutate <k> <script>        run `/bin/sh <script>` (real git on PATH) before answering k
//! Everything else is passed through to the real git with `exec`.
//!
//! No randomness, no clock: every decision is a function of (plan, k, argv).

use std::ffi::OsString;
use std::fs;
use std::io::Write;
use std::os::unix::ffi::OsStrExt;
use std::os::unix::process::CommandExt;
use std::process::{Command, Stdio};

const REAL_GIT: &str = "/usr/bin/git";

fn real_git(args: &[OsString]) -> Command {
    let mut c = Command::new(REAL_GIT);
    c.args(args);
    // the real git must not see the simulator's seams
    c.env_remove("LD_PRELOAD");
    c.env_remove("SIM_NOW");
    c.env_remove("SIM_NSEC");
    c.env_remove("ZSIM_DIR");
    c.env("PATH", "/usr/bin:/bin");
    c
}

fn json_str(b: &[u8]) -> String {
    let mut s = String::from("\"");
    for &c in b {
        match c {
            b'"' => s.push_str("\\\""),
            b'\\' => s.push_str("\\\\"),
            0x20..=0x7e => s.push(c as char),
            _ => s.push_str(&format!("\\u{:04x}", c as u32)),
        }
    }
    s.push('"');
    s
}

fn splitmix(x: &mut u64) -> u64 {
    *x = x.wrapping_add(0x9E3779B97F4A7C15);
    let mut z = *x;
    z = (z ^ (z >> 30)).wrapping_mul(0xBF58476D1CE4E5B9);
    z = (z ^ (z >> 27)).wrapping_mul(0x94D049BB133111EB);
    z ^ (z >> 31)
}

fn out_exit(stdout: &[u8], stderr: &[u8], code: i32) -> ! {
    let _ = std::io::stdout().write_all(stdout);
    let _ = std::io::stdout().flush();
    let _ = std::io::stderr().write_all(stderr);
    std::process::exit(code)
}

fn run_real(args: &[OsString]) -> (Vec<u8>, Vec<u8>, i32) {
    match real_git(args).stdin(Stdio::null()).output() {
        Ok(o) => (o.stdout, o.stderr, o.status.code().unwrap_or(128)),
        Err(_) => (Vec::new(), b"fatal: zsim-git: cannot run real git\n".to_vec(), 128),
    }
}

fn main() {
    let args: Vec<OsString> = std::env::args_os().skip(1).collect();
    let dir = match std::env::var_os("ZSIM_DIR") {
        Some(d) => std::path::PathBuf::from(d),
        None => {
            let e = real_git(&args).exec();
            eprintln!("zsim-git: exec failed: {e}");
            std::process::exit(127);
        }
    };
    let trace_path = dir.join("trace");
    let k = fs::read(&trace_path).map(|b| b.iter().filter(|&&c| c == b'\n').count()).unwrap_or(0) + 1;
    let plan = fs::read_to_string(dir.join("plan")).unwrap_or_default();

    let sub = args.first().map(|s| s.to_string_lossy().to_string()).unwrap_or_default();
    let mut budget: Option<usize> = None;
    let mut fault: Option<String> = None;
    let mut mutate: Option<String> = None;
    let mut benign: Vec<(String, u64)> = Vec::new();
    for line in plan.lines() {
        let mut it = line.split_whitespace();
        match it.next() {
            Some("budget") => budget = it.next().and_then(|v| v.parse().ok()),
            Some("benign") => {
                let kind = it.next().unwrap_or("").to_string();
                let seed = it.next().and_then(|v| v.parse().ok()).unwrap_or(0);
                benign.push((kind, seed));
            }
            Some("fault") => {
                let at = it.next().unwrap_or("");
                let kind = it.next().unwrap_or("");
                if at == "*" || at.parse::<usize>().ok() == Some(k) || at.strip_prefix("sub:").map(|n| n == sub).unwrap_or(false) {
                    fault = Some(kind.to_string());
                }
            }
            Some("mutate") => {
                let at = it.next().unwrap_or("");
                if at.parse::<usize>().ok() == Some(k) {
                    mutate = it.next().map(|s| s.to_string());
                }
            }
            _ => {}
        }
    }

    let over_budget = budget.map(|b| k >= b).unwrap_or(false);
    let decision = if over_budget {
        "budget".to_string()
    } else if let Some(f) = &fault {
        format!("fault:{f}")
    } else if !benign.is_empty() {
        "benign".to_string()
    } else {
        "pass".to_string()
    };
    {
        let argv: Vec<String> = args.iter().map(|a| json_str(a.as_bytes())).collect();
        let line = format!(
            "{k}\t{decision}{}\t[{}]\n",
            if mutate.is_some() { "+mutate" } else { "" },
            argv.join(",")
        );
        if let Ok(mut f) = fs::OpenOptions::new().create(true).append(true).open(&trace_path) {
            let _ = f.write_all(line.as_bytes());
        }
    }

    if let Some(script) = mutate {
        let _ = Command::new("/bin/sh")
            .arg(script)
            .env_remove("LD_PRELOAD")
            .env_remove("SIM_NOW")
            .env_remove("ZSIM_DIR")
            .env("PATH", "/usr/bin:/bin")
            .stdin(Stdio::null())
            .stdout(Stdio::null())
            .stderr(Stdio::null())
            .status();
    }

    if over_budget {
        out_exit(b"", b"fatal: zsim step budget exceeded\n", 128);
    }

    if let Some(f) = fault {
        inject(&f, &args);
    }

    if benign.is_empty() {
        let e = real_git(&args).exec();
        eprintln!("zsim-git: exec failed: {e}");
        std::process::exit(127);
    }

    // benign perturbations: legal behaviour of git that must not change any reported fact
    let (mut so, mut se, code) = run_real(&args);
    if code == 0 {
        let is_set_output = (sub == "tag" && args.iter().any(|a| a == "--points-at"))
            || (sub == "log" && args.iter().any(|a| a == "--no-walk"));
        for (kind, seed) in &benign {
            match kind.as_str() {
                "shuffle" if is_set_output => {
                    let text = String::from_utf8_lossy(&so).to_string();
                    let mut lines: Vec<&str> = text.lines().collect();
                    let mut st = seed ^ (k as u64).wrapping_mul(0x9E3779B97F4A7C15);
                    for i in (1..lines.len()).rev() {
                        let j = (splitmix(&mut st) % (i as u64 + 1)) as usize;
                        lines.swap(i, j);
                    }
                    let mut t = lines.join("\n");
                    if !t.is_empty() {
                        t.push('\n');
                    }
                    so = t.into_bytes();
                }
                "blank" => so.extend_from_slice(b"\n\n"),
                "warn" => se.extend_from_slice(
                    b"warning: refname 'HEAD' is ambiguous.\nhint: zsim benign stderr noise\n",
                ),
                _ => {}
            }
        }
    }
    out_exit(&so, &se, code)
}

fn inject(kind: &str, args: &[OsString]) -> ! {
    match kind {
        "exit128_notrepo" => out_exit(
            b"",
            b"fatal: not a git repository (or any of the parent directories): .git\n",
            128,
        ),
        "exit128_ambig_head" => out_exit(
            b"",
            b"fatal: ambiguous argument 'HEAD': unknown revision or path not in the working tree.\nUse '--' to separate paths from revisions, like this:\n'git <command> [<revision>...] -- [<file>...]'\n",
            128,
        ),
        "exit128_corrupt" => out_exit(
            b"",
            b"error: object file .git/objects/3a/0f is empty\nfatal: loose object 3a0f is corrupt\n",
            128,
        ),
        "exit128_perm" => out_exit(b"", b"fatal: cannot open '.git/HEAD': Permission denied\n", 128),
        "exit128_badobj" => out_exit(b"", b"fatal: bad object HEAD\n", 128),
        "exit128_lock" => out_exit(
            b"",
            b"fatal: Unable to create '/work/repo/.git/index.lock': File exists.\n\nAnother git process seems to be running in this repository, e.g.\nan editor opened by 'git commit'. Please make sure all processes\nare terminated then try again.\n",
            128,
        ),
        "exit128_shallow" => out_exit(b"", b"fatal: shallow file has changed since we read it\n", 128),
        "exit128_auth" => out_exit(b"", b"fatal: Authentication failed for 'https://example.invalid/repo.git/'\n", 128),
        "exit128_network" => out_exit(b"", b"ssh: Could not resolve hostname example.invalid: Name or service not known\nfatal: Could not read from remote repository.\n", 128),
        "exit128_dubious" => out_exit(
            b"",
            b"fatal: detected dubious ownership in repository at '/work/repo'\nTo add an exception for this directory, call:\n\n\tgit config --global --add safe.directory /work/repo\n",
            128,
        ),
        "exit129_usage" => out_exit(b"", b"usage: git rev-list [<options>] <commit>... [--] [<path>...]\n", 129),
        "exit128_unknown_rev" => out_exit(b"", b"fatal: bad revision 'v1.0.0..HEAD'\n", 128),
        "exit1_stdout_and_stderr" => out_exit(b"partial output before the failure\n", b"error: something went wrong\n", 1),
        "exit1_empty_stderr" => out_exit(b"", b"", 1),
        "exit255_nonutf8_stderr" => out_exit(b"", b"fatal: \xff\xfe\x80 broken \xc3\x28\n", 255),
        "exit128_big_stderr" => {
            let big = vec![b'e'; 1 << 20];
            out_exit(b"", &big, 128)
        }
        "exit0_stderr_fatal" => {
            // exit status 0 but an alarming stderr: zerv must go by the status
            let (so, _, _) = run_real(args);
            out_exit(&so, b"fatal: not a git repository\n", 0)
        }
        "ok_empty" => out_exit(b"", b"", 0),
        "ok_nonnumeric" => out_exit(b"abc def\n", b"", 0),
        "ok_negative" => out_exit(b"-5\n", b"", 0),
        "ok_huge" => out_exit(b"99999999999999999999999999\n", b"", 0),
        "ok_nonutf8" => out_exit(b"\xff\xfe\x80\xc3\x28\n", b"", 0),
        "ok_nul" => out_exit(b"12\x0034\n", b"", 0),
        "ok_bigline" => {
            let mut big = vec![b'a'; 1 << 20];
            big.push(b'\n');
            out_exit(&big, b"", 0)
        }
        "ok_float" => out_exit(b"1.5\n", b"", 0),
        "ok_u32max_plus" => out_exit(b"4294967296\n", b"", 0),
        "torn_ok" | "torn_fail" => {
            let (so, _, _) = run_real(args);
            let cut = so.len() / 2;
            if kind == "torn_ok" {
                out_exit(&so[..cut], b"", 0)
            } else {
                out_exit(&so[..cut], b"error: git died of signal 13\n", 141)
            }
        }
        // valid but unusual: the right answer in a spelling git is free to use
        "valid_crlf" | "valid_bom" | "valid_dup_lines" | "valid_lead_space" | "valid_trailing_spaces" | "valid_no_final_newline" => {
            let (so, se, code) = run_real(args);
            let text = String::from_utf8_lossy(&so).to_string();
            let out: Vec<u8> = match kind {
                "valid_crlf" => text.replace('\n', "\r\n").into_bytes(),
                "valid_bom" => [b"\xef\xbb\xbf".to_vec(), so.clone()].concat(),
                "valid_dup_lines" => text.lines().flat_map(|l| [l, l]).collect::<Vec<_>>().join("\n").into_bytes(),
                "valid_lead_space" => text.lines().map(|l| format!("  {l}")).collect::<Vec<_>>().join("\n").into_bytes(),
                "valid_trailing_spaces" => text.lines().map(|l| format!("{l}  \t")).collect::<Vec<_>>().join("\n").into_bytes(),
                _ => text.trim_end_matches('\n').as_bytes().to_vec(),
            };
            out_exit(&out, &se, code)
        }
        "junk_before" => {
            let (so, se, code) = run_real(args);
            let mut o = b"hint: junk line \xe2\x98\x83 before\n".to_vec();
            o.extend_from_slice(&so);
            out_exit(&o, &se, code)
        }
        "junk_after" => {
            let (mut so, se, code) = run_real(args);
            so.extend_from_slice(b"zzz junk after\n-1\n");
            out_exit(&so, &se, code)
        }
        "sigkill" => unsafe {
            libc::kill(libc::getpid(), libc::SIGKILL);
            std::process::exit(137)
        },
        "sigsegv" => unsafe {
            libc::signal(libc::SIGSEGV, libc::SIG_DFL);
            libc::kill(libc::getpid(), libc::SIGSEGV);
            std::process::exit(139)
        },
        other => out_exit(b"", format!("fatal: zsim-git: unknown fault {other}\n").as_bytes(), 128),
    }
}
