//! Run driver: seeded batch over a worker pool (results merged in run-index order so that
//! verdict, event digests and evidence do not depend on the worker count), minimisation,
//! replay files, known findings, evidence.

use crate::findings;
use crate::rng::Rng;
use crate::sim::*;
use serde_json::{json, Value};
use std::path::{Path, PathBuf};
use std::sync::atomic::{AtomicU64, Ordering};
use std::sync::Mutex;
use std::time::Instant;

pub struct Engine {
    pub id: &'static str,
    pub level: &'static str,
    pub generate: fn(&mut Rng, Tier, u64) -> Value,
    pub execute: fn(&Ctx, &Value, &RunDir, &mut Stats) -> HResult<Vec<Violation>>,
    pub shrink: fn(&Value) -> Vec<Value>,
    pub runs_quick: u64,
    pub runs_thorough: u64,
    pub cap_thorough_secs: u64,
    pub rule: &'static str,
    pub assumptions: &'static [&'static str],
    pub real_vs_stub: &'static str,
    pub required_probes: &'static [&'static str],
    /// one-time initialisation (e.g. flag discovery from the binary under test)
    pub init: Option<fn(&Ctx) -> HResult<()>>,
    /// counter that holds the number of judged executions when one run contains many
    pub eval_counter: Option<&'static str>,
    /// a scenario is split over this many consecutive runs (enumerated cases are dealt round-robin)
    pub shards: u64,
    /// the property itself is determinism of the system under test: a violation whose replay does
    /// not reproduce in a fresh process is then still a violation (exit 1), not a harness error
    pub nondeterminism_is_violation: bool,
}

pub fn engines() -> Vec<Engine> {
    vec![Engine {
        id: "C02",
        level: "exploration",
        generate: crate::c02::generate,
        execute: crate::c02::execute,
        shrink: crate::c02::shrink,
        runs_quick: 1500,
        runs_thorough: 50_000,
        cap_thorough_secs: 1200,
        rule: "one evaluation = one simulated history (seeded developer actors with skewed clocks build a real repository with real git; zerv is observed at 1-4 points plus benign-perturbed, packed-refs and other-cwd re-observations of the final state) judged field by field against the reference model; distinct = distinct canonical world states (DAG shape from HEAD up to renaming, validity class of every tag per commit, number of unreachable tags, HEAD kind, work-tree facts, input format); non-trivial = at least 2 commits and 1 tag",
        assumptions: &[
            "git 2.39.5 at /usr/bin/git is the other party; other git versions and user git configuration are outside the simulated world",
            "the reference model is cross-validated against the repository through plumbing zerv does not use; a disagreement is a harness error, never a violation",
            "tag names come from a curated table whose SemVer / PEP 440 validity is fixed by construction; strings debatable under the grammars are C08/C09 territory and are not used",
            "shallow clones, submodules, linked work trees, SHA-256 repositories and non-UTF-8 ref names are not explored",
        ],
        real_vs_stub: "real: zerv binary built from /repo's working tree, /usr/bin/git (world building and zerv's queries), kernel pipes, tmpfs; simulated: developer actors, their clocks and skews, zerv's wall clock (LD_PRELOAD shim), the `git` on zerv's PATH (tracing / perturbing proxy), environment, cwd; oracle: reference model + independent SemVer / PEP 440 comparators",
        required_probes: &[
            "probe.merge_in_ancestry", "probe.several_tags_on_base_commit", "probe.valid_tag_unreachable", "probe.older_valid_tag_shadowed",
            "probe.detached_head", "probe.dirty", "probe.touched_but_clean", "probe.annotated_base_tag", "probe.nested_tag_invisible",
            "probe.child_older_than_parent", "probe.expect_no_version", "probe.unborn_head", "probe.several_nearest_commits",
            "probe.invalid_tag_nearer_than_base", "probe.merge_inside_distance", "probe.answer_not_unique", "probe.several_roots_in_ancestry",
            "probe.version_named_tag_on_a_tree",
        ],
        init: None,
        eval_counter: None,
        shards: 1,
        nondeterminism_is_violation: false,
    },
    Engine {
        id: "C13",
        level: "fault_enumeration",
        generate: crate::c13::generate,
        execute: crate::c13::execute,
        shrink: crate::c13::shrink,
        runs_quick: 88,
        runs_thorough: 4800,
        cap_thorough_secs: 1500,
        rule: "one evaluation = one zerv child process judged by the clean-failure oracle; per scenario (seeded world state x command) the fault-free run is traced and then EVERY git invocation k x EVERY proxy fault kind is executed (enumerated, not sampled), plus whole-run git faults, 2-3 fault sequences, storage corruptions (target x manner), stdin / cwd / non-UTF-8 argv faults, interleaved repository mutations at every invocation index (thorough) and a seeded adversarial argv workload drawn from the flag set the binary itself reports; distinct = distinct (git sub-command, invocation index, fault kind, zerv sub-command, outcome class) tuples whose fault actually fired according to the proxy trace, plus distinct storage / stdin / cwd / whole-run / mutation placements",
        assumptions: &[
            "scenarios, argument vectors and multi-fault sequences are sampled; only `each git invocation x each fault kind` per scenario is enumerated",
            "a success with degraded facts under an injected fault (zerv deliberately swallows some git failures) is not a violation of C13 and is only counted",
            "wall clocks outside [0, 2^32) are out of contract for `flow` and are not used for verdicts",
            "children are started with RLIMIT_AS = 8 GiB so that a runaway allocation aborts quickly (an abort is a violation)",
        ],
        real_vs_stub: "real: zerv binary built from /repo's working tree, /usr/bin/git behind the proxy (pass-through unless a fault is planned; storage faults are produced by the real git reading damaged files), kernel pipes, tmpfs; simulated: git failures / garbage / torn output / signals at a chosen invocation index, PATH contents, stdin transport, cwd, wall clock, concurrent repository mutations placed at an exact invocation index",
        required_probes: &["probe.rust_log_effective"],
        init: Some(crate::argvgen::init),
        eval_counter: Some("children"),
        shards: 4,
        nondeterminism_is_violation: false,
    },
    Engine {
        id: "C14",
        level: "exploration",
        generate: crate::c14::generate,
        execute: crate::c14::execute,
        shrink: crate::c14::shrink,
        runs_quick: 240,
        runs_thorough: 20_000,
        cap_thorough_secs: 1200,
        rule: "one evaluation = one zerv execution in a fresh process; per scenario (seeded repository history or stdin document or overrides, one argv, one simulated instant) a reference execution (TZ=UTC, LANG=C, cwd=/, -C <abs repo>, minimal environment) is compared byte for byte (stdout + exit status) with 10-14 perturbed executions (TZ named / POSIX / garbage, LANG / LC_ALL / LC_TIME, 7 cwd / -C spellings incl. sub-directory, relative path and symlink, 5-30 unrelated and tempting environment variables, HOME unset, plain repetition), with a second simulated instant (output may differ only for dirty / ahead-in-tag-mode states or templates naming current_timestamp), and date-derived components are compared with an independent UTC calendar under every TZ of the scenario; distinct = distinct (scenario class, perturbation kind) pairs, scenario class = source x sub-command x outcome x template?, counted only when the perturbation was effective (e.g. tz-date-differs only when the local date differs from the UTC date at the instants used)",
        assumptions: &[
            "templates that explicitly ask for nondeterminism (now(), get_random(), get_env()) are excluded; GIT_* and RUST_LOG are related variables by documentation and are not perturbed",
            "only the locales C, C.utf8 and POSIX are installed on this image; other locale names exercise the lookup-failure path of libc",
            "the wall clock is frozen per process by the LD_PRELOAD shim; tzdata is installed, so named zones are effective",
        ],
        real_vs_stub: "real: zerv binary built from /repo's working tree, /usr/bin/git behind the pass-through proxy, libc locale and tz machinery, tmpfs; simulated: wall clock, commit clocks (placed near UTC midnights, year ends and 29 February), the whole process environment, cwd and -C spelling; oracle: byte equality with the reference execution and an independent civil-from-days UTC calendar",
        required_probes: &["probe.tz_local_date_differs_from_utc", "probe.clock_changed_output_where_documented"],
        init: Some(crate::argvgen::init),
        eval_counter: Some("executions"),
        shards: 1,
        nondeterminism_is_violation: true,
    },
    Engine {
        id: "C12",
        level: "exploration",
        generate: crate::c12::generate,
        execute: crate::c12::execute,
        shrink: crate::c12::shrink,
        runs_quick: 500,
        runs_thorough: 40_000,
        cap_thorough_secs: 1200,
        rule: "one evaluation = one simulated pipeline scenario: a producer (zerv version / flow on a simulated git history, on --source none with hostile overrides - quotes, backslashes, newlines, non-BMP text, nested custom JSON, numeric edge values, all schema presets and custom RON schemas - or a literal document normalised by one hop) emits a Zerv RON document; the simulator delivers it in seeded chunks to 1-3 consumer hops at a frozen and at an advanced simulated instant and checks byte-identical re-emission and piped == direct for semver, pep440 and two templates; then 12-26 damaged deliveries (truncation at any byte, bit flip, dropped / duplicated span, structural schema rewrite) must each be refused cleanly or - if accepted - yield a placement-valid fixed point, and schema rewrites that violate the placement rules must be refused; distinct = distinct (document hash, transport mode, clock class or outcome) triples with at least one non-default vars field",
        assumptions: &[
            "the `for all field values` reading is covered only as far as the producers reach (overrides, histories, presets, custom schemas); structural rewrites are document mutation, i.e. input generation, and are labelled as such",
            "placement rules are restated independently in zsim (zron.rs) from the property text; documents are read back with the ron crate into structures declared in the harness",
            "direct renderings are taken at the producer's instant, piped renderings at the consumer's instant",
        ],
        real_vs_stub: "real: zerv producer and consumer processes built from /repo's working tree, /usr/bin/git for git-backed producers, kernel pipes; simulated: the pipe between the two processes (chunking, truncation, corruption, rewriting), the wall clock of each hop; oracle: byte equality, direct-vs-piped equality, independent RON reader and placement validator",
        required_probes: &[],
        init: Some(crate::argvgen::init),
        eval_counter: None,
        shards: 1,
        nondeterminism_is_violation: false,
    },
    Engine {
        id: "C03",
        level: "exploration",
        generate: crate::c03::generate,
        execute: crate::c03::execute,
        shrink: crate::c03::shrink,
        runs_quick: 400,
        runs_thorough: 15_000,
        cap_thorough_secs: 1200,
        rule: "one evaluation = one simulated workflow history: main tagged with a random final release, then a seeded GitFlow / trunk-like script (branch with rule-relevant and arbitrary names, commit with skewed clocks, dirty / clean, merge, fast-forward, detach, reset, release = tag HEAD with the public part of flow's own output, next final release) under one fixed flag set (11 standard presets, post mode, hash length 1-10, default or custom branch rules, label / number overrides); after every observation point `zerv flow` is run for semver and pep440 at the simulated instant and judged: clause 1 exact X.Y.Z at a clean final tag, clause 2 X.Y.Z < V < X.Y.(Z+1) otherwise, clause 3 strictly greater with more commits (commit post-mode, same branch / tag / first-parent chain), clause 4 pre-release tag unchanged; the clause to apply comes from the reference model, the order from independent SemVer / PEP 440 comparators; distinct = distinct (base tag shape, branch class, distance (capped at 6), dirty, preset, post mode, hash length, custom rules) observation states",
        assumptions: &[
            "clauses are evaluated only when the reference model says the base tag is unique (one nearest tagged commit, one maximal tag)",
            "clause 3 is evaluated only where the model knows the post mode is `commit` (explicit flag, or default rules on a branch that is not release/*)",
            "release tags are the shapes the README documents as tags: X.Y.Z-label.N and X.Y.Z-label.N.post.P (never .dev.* or +context strings)",
            "wall clock within [0, 2^32); numbers below 2^31",
        ],
        real_vs_stub: "real: zerv binary (flow runs the version pipeline twice, 22 git invocations), /usr/bin/git behind the pass-through proxy; simulated: workflow actors and their clocks, zerv's wall clock (dev.<SIM_NOW>); oracle: reference model for base tag / distance / dirty, independent SemVer / PEP 440 comparators",
        required_probes: &[],
        init: None,
        eval_counter: None,
        shards: 1,
        nondeterminism_is_violation: false,
    }]
}

pub fn engine(id: &str) -> Option<Engine> {
    engines().into_iter().find(|e| e.id == id)
}

#[derive(Default)]
pub struct Opts {
    pub runs: Option<u64>,
    pub workers: Option<usize>,
    pub digests: Option<PathBuf>,
    pub cap_secs: Option<u64>,
    pub no_evidence: bool,
    pub no_shrink: bool,
}

struct RunResult {
    scenario: Value,
    viol: Vec<Violation>,
    herr: Option<String>,
    stats: Stats,
}

fn run_one(ctx: &Ctx, eng: &Engine, idx: u64) -> RunResult {
    let mut rng = Rng::for_run(ctx.seed, eng.id, idx / eng.shards);
    let mut scenario = (eng.generate)(&mut rng, ctx.tier, idx / eng.shards);
    if eng.shards > 1 {
        if let Some(o) = scenario.as_object_mut() {
            o.insert("shard".into(), json!([idx % eng.shards, eng.shards]));
        }
    }
    exec_scenario(ctx, eng, &scenario, &format!("r{idx}"))
}

fn exec_scenario(ctx: &Ctx, eng: &Engine, scenario: &Value, label: &str) -> RunResult {
    let mut stats = Stats::new();
    let rd = match RunDir::new(ctx, label) {
        Ok(r) => r,
        Err(e) => return RunResult { scenario: scenario.clone(), viol: vec![], herr: Some(e.0), stats },
    };
    match (eng.execute)(ctx, scenario, &rd, &mut stats) {
        Ok(v) => RunResult { scenario: scenario.clone(), viol: v, herr: None, stats },
        Err(e) => RunResult { scenario: scenario.clone(), viol: vec![], herr: Some(e.0), stats },
    }
}

/// Both seams must be effective before anything is believed (DESIGN.md §1 N1, N3).
pub fn selftest_seams(ctx: &Ctx) -> i32 {
    let rd = match RunDir::new(ctx, "seams") {
        Ok(r) => r,
        Err(e) => {
            println!("HARNESS-ERROR: {}", e.0);
            return 2;
        }
    };
    let mut st = Stats::new();
    let call = ZervCall::new(
        &["version", "--source", "none", "--tag-version", "1.2.3", "--output-template", "{{ current_timestamp }}"],
        Path::new("/"),
        1_234_567_890,
    );
    let o = run_zerv(ctx, &rd, &call, &mut st);
    if !o.ok() || o.out_str().trim() != "1234567890" {
        println!(
            "HARNESS-ERROR: clock seam ineffective: SIM_NOW=1234567890 but zerv says {:?} ({}, stderr {:?})",
            o.out_str(),
            o.status_str(),
            short(&o.err_str(), 300)
        );
        return 2;
    }
    // proxy seam: a tiny repository, zerv must reach git only through the proxy
    let actors = vec![crate::world::Actor { clock: 1_000_000_000, tz: "+0000".into() }];
    let mut w = match crate::world::World::create(&rd.repo(), &rd.home(), actors) {
        Ok(w) => w,
        Err(e) => {
            println!("HARNESS-ERROR: {}", e.0);
            return 2;
        }
    };
    use crate::world::{Op, TagKind};
    for op in [
        Op::Commit { actor: 0, dt: 0, adt: 0, with_file: false },
        Op::Tag { name: "v1.0.0".into(), kind: TagKind::Light, target: None, actor: 0, dt: 0 },
    ] {
        if let Err(e) = w.apply(&op) {
            println!("HARNESS-ERROR: {}", e.0);
            return 2;
        }
    }
    rd.set_plan("");
    rd.reset_trace();
    let repo = rd.repo().to_string_lossy().to_string();
    let o = run_zerv(ctx, &rd, &ZervCall::new(&["version", "-C", &repo], Path::new("/"), 1_234_567_890), &mut st);
    let tr = rd.trace();
    if !o.ok() || o.out_str().trim() != "1.0.0" || tr.len() < 5 {
        println!(
            "HARNESS-ERROR: git proxy seam ineffective: {} stdout={:?} stderr={:?} traced invocations={}",
            o.status_str(),
            o.out_str(),
            short(&o.err_str(), 300),
            tr.len()
        );
        return 2;
    }
    println!("seams ok: clock shim effective; {} git invocations traced through the proxy", tr.len());
    0
}

fn sig_set(v: &[Violation]) -> Vec<String> {
    v.iter().map(|x| x.signature()).collect()
}

fn minimise(ctx: &Ctx, eng: &Engine, sc: &Value, sig: &str, budget: &mut u32, deadline: Instant) -> (Value, Violation, u32) {
    let mut cur = sc.clone();
    let mut steps = 0u32;
    let first = exec_scenario(ctx, eng, &cur, "min-base");
    let mut cur_v = first.viol.iter().find(|v| v.signature() == sig).cloned();
    loop {
        let mut improved = false;
        for (ci, cand) in (eng.shrink)(&cur).into_iter().enumerate() {
            if *budget == 0 || Instant::now() >= deadline {
                *budget = 0;
                break;
            }
            *budget -= 1;
            let r = exec_scenario(ctx, eng, &cand, &format!("min-{ci}"));
            if r.herr.is_some() {
                continue;
            }
            if let Some(v) = r.viol.iter().find(|v| v.signature() == sig) {
                cur = cand;
                cur_v = Some(v.clone());
                improved = true;
                steps += 1;
                break;
            }
        }
        if !improved || *budget == 0 {
            break;
        }
    }
    let v = cur_v.unwrap_or_else(|| Violation::new(eng.id, "unknown", "unknown", "", "", "violation did not reproduce during minimisation"));
    (cur, v, steps)
}

pub fn run(ctx: &Ctx, id: &str, opts: &Opts) -> i32 {
    let Some(eng) = engine(id) else {
        println!("HARNESS-ERROR: no engine for property {id}");
        return 2;
    };
    println!("VERIF_SEED={} property={} tier={}", ctx.seed, id, ctx.tier.name());
    let sc = selftest_seams(ctx);
    if sc != 0 {
        return sc;
    }
    let known = match findings::load(&ctx.verif_dir.join("known_findings.json")) {
        Ok(k) => k,
        Err(e) => {
            println!("HARNESS-ERROR: known_findings.json: {e}");
            return 2;
        }
    };
    if let Some(init) = eng.init {
        if let Err(e) = init(ctx) {
            println!("HARNESS-ERROR: {}", e.0);
            return 2;
        }
    }
    let n = opts.runs.unwrap_or(if ctx.tier == Tier::Quick { eng.runs_quick } else { eng.runs_thorough });
    let cap = opts.cap_secs.unwrap_or(if ctx.tier == Tier::Quick { 3600 } else { eng.cap_thorough_secs });
    let workers = opts.workers.unwrap_or_else(|| std::thread::available_parallelism().map(|x| x.get()).unwrap_or(4).min(16));
    let t0 = Instant::now();
    let next = AtomicU64::new(0);
    let results: Mutex<Vec<Option<RunResult>>> = Mutex::new((0..n).map(|_| None).collect());
    std::thread::scope(|s| {
        for _ in 0..workers {
            s.spawn(|| loop {
                let i = next.fetch_add(1, Ordering::SeqCst);
                if i >= n || t0.elapsed().as_secs() >= cap {
                    break;
                }
                let r = run_one(ctx, &eng, i);
                results.lock().unwrap()[i as usize] = Some(r);
            });
        }
    });
    let results = results.into_inner().unwrap();
    let mut total = Stats::new();
    let mut done = 0u64;
    let mut herrs: Vec<(u64, String)> = vec![];
    let mut viols: Vec<(u64, Value, Violation)> = vec![];
    let mut digests = String::new();
    for (i, r) in results.iter().enumerate() {
        let Some(r) = r else { continue };
        done += 1;
        total.merge(&r.stats);
        digests.push_str(&format!("{i} {:016x}\n", r.stats.digest()));
        if let Ok(d) = std::env::var("ZSIM_DUMP_EVENTS") {
            let _ = std::fs::create_dir_all(&d);
            let _ = std::fs::write(format!("{d}/{i}.log"), r.stats.events.join("\n"));
        }
        if let Some(e) = &r.herr {
            herrs.push((i as u64, e.clone()));
        }
        for v in &r.viol {
            viols.push((i as u64, r.scenario.clone(), v.clone()));
        }
    }
    if let Ok(p) = std::env::var("ZSIM_DUMP_VIOL") {
        let lines: Vec<String> = viols.iter().map(|(i, _, v)| format!("{i}\t{}\t{}\t{}\t{}\t{}", v.clause, v.field, v.expected.replace('\n', " "), v.actual.replace('\n', " "), v.detail.replace('\n', " "))).collect();
        let _ = std::fs::write(p, lines.join("\n"));
    }
    if let Some(p) = &opts.digests {
        let _ = std::fs::write(p, &digests);
    }
    let wall = t0.elapsed().as_secs_f64();
    println!(
        "{} runs completed of {} scheduled in {:.1}s with {} workers ({} zerv processes, {} git processes by the simulator)",
        done, n, wall, workers, total.zerv_spawns, total.git_spawns
    );
    if !herrs.is_empty() {
        for (i, e) in herrs.iter().take(5) {
            println!("HARNESS-ERROR: run {i}: {}", norm(ctx, e));
        }
        println!("HARNESS-ERROR: {} runs failed inside the harness; nothing is claimed", herrs.len());
        return 2;
    }

    // ---- violations: one representative per signature, minimised, replay file, known findings
    let mut exit = 0;
    let mut seen_sig: Vec<String> = vec![];
    let mut unknown = 0u64;
    let mut known_seen: Vec<(String, String)> = vec![];
    let mut budget: u32 = if opts.no_shrink { 0 } else { 600 };
    // minimisation is bounded in executions and in wall-clock time (a hanging program under test makes
    // every candidate cost a watchdog period)
    let min_deadline = Instant::now() + std::time::Duration::from_secs(if ctx.tier == Tier::Quick { 150 } else { 600 });
    let nviol = viols.len();
    for (i, sc, v) in viols {
        let sig = v.signature();
        // a listed finding is matched before and after minimisation
        if let Some(f) = findings::matching(&known, &v, &sc) {
            if !known_seen.iter().any(|(k, _)| k == &f.id) {
                known_seen.push((f.id.clone(), f.description.clone()));
            }
            continue;
        }
        if seen_sig.contains(&sig) {
            continue;
        }
        seen_sig.push(sig.clone());
        let mut sc = sc;
        if let Some(nar) = &v.narrow {
            if let Some(o) = sc.as_object_mut() {
                o.insert("only".into(), json!(nar));
            }
        }
        let (msc, mv, steps) = if budget > 0 { minimise(ctx, &eng, &sc, &sig, &mut budget, min_deadline) } else { (sc.clone(), v.clone(), 0) };
        if let Some(f) = findings::matching(&known, &mv, &msc) {
            if !known_seen.iter().any(|(k, _)| k == &f.id) {
                known_seen.push((f.id.clone(), f.description.clone()));
            }
            continue;
        }
        unknown += 1;
        let dir = ctx.verif_dir.join("replays");
        let _ = std::fs::create_dir_all(&dir);
        let path = dir.join(format!("{}-{}-{}.json", eng.id, ctx.seed, i));
        let doc = json!({
            "property": eng.id, "seed": ctx.seed, "run": i, "tier": ctx.tier.name(),
            "signature": sig, "violation": mv, "scenario": msc, "minimisation_steps": steps,
            "original_scenario": sc,
        });
        let _ = std::fs::write(&path, serde_json::to_string_pretty(&doc).unwrap());
        // the replay file must reproduce in a fresh process
        let rep = std::process::Command::new(std::env::current_exe().unwrap())
            .arg("replay")
            .arg(&path)
            .env("ZSIM_ZERV", &ctx.zerv)
            .env("ZSIM_SHIM", &ctx.shim)
            .env("ZSIM_PROXY", &ctx.proxy)
            .env("ZSIM_VERIF_DIR", &ctx.verif_dir)
            .output();
        let reproduced = rep.map(|o| String::from_utf8_lossy(&o.stdout).contains("REPRODUCED signature=")).unwrap_or(false);
        println!(
            "violation: clause={} field={} expected={} actual={} detail={}",
            mv.clause,
            mv.field,
            short(&mv.expected, 300),
            short(&mv.actual, 300),
            short(&mv.detail, 300)
        );
        if !reproduced {
            if eng.nondeterminism_is_violation {
                println!("NOTE: replay file {path:?} did not reproduce in a fresh process: the system under test behaves differently from process to process, which is what this property forbids");
            } else {
                println!("HARNESS-ERROR: replay file {path:?} did not reproduce in a fresh process");
                exit = 2;
            }
        }
        println!("VIOLATION property={} replay={}", eng.id, path.display());
        if exit == 0 {
            exit = 1;
        }
    }
    for (idk, d) in &known_seen {
        println!("KNOWN-FINDING: property={} {} — {}", eng.id, idk, d);
    }
    total.known = known_seen.clone();

    // ---- probes
    let zero: Vec<&str> = eng.required_probes.iter().copied().filter(|p| total.counters.get(*p).copied().unwrap_or(0) == 0).collect();
    if !zero.is_empty() {
        println!("PROBE-ZERO: {:?} (workload did not reach these conditions in this batch)", zero);
    }

    if !opts.no_evidence {
        let ev = evidence(ctx, &eng, &total, done, n, wall, unknown, nviol as u64, &zero);
        let dir = ctx.verif_dir.join("evidence");
        let _ = std::fs::create_dir_all(&dir);
        if let Err(e) = std::fs::write(dir.join(format!("{}.json", eng.id)), serde_json::to_string_pretty(&ev).unwrap()) {
            println!("HARNESS-ERROR: cannot write evidence: {e}");
            return 2;
        }
    }
    if exit == 0 {
        println!("OK property={} held on {} simulated runs", eng.id, done);
    }
    exit
}

fn evidence(ctx: &Ctx, eng: &Engine, st: &Stats, done: u64, scheduled: u64, wall: f64, unknown: u64, raw_viol: u64, zero: &[&str]) -> Value {
    let probes: serde_json::Map<String, Value> = st.counters.iter().filter(|(k, _)| k.starts_with("probe.")).map(|(k, v)| (k.clone(), json!(v))).collect();
    let faults: serde_json::Map<String, Value> = st.counters.iter().filter(|(k, _)| k.starts_with("fault.") || k.starts_with("benign.")).map(|(k, v)| (k.clone(), json!(v))).collect();
    let other: serde_json::Map<String, Value> = st
        .counters
        .iter()
        .filter(|(k, _)| !k.starts_with("probe.") && !k.starts_with("fault.") && !k.starts_with("benign."))
        .map(|(k, v)| (k.clone(), json!(v)))
        .collect();
    let named: serde_json::Map<String, Value> = st.distinct_named.iter().map(|(k, v)| (k.clone(), json!(v.len()))).collect();
    let span = if st.t_min <= st.t_max { st.t_max - st.t_min } else { 0 };
    json!({
        "property_id": eng.id,
        "tier": ctx.tier.name(),
        "seed": ctx.seed as i64,
        "level": eng.level,
        "coverage": {
            "evaluations": eng.eval_counter.and_then(|c| st.counters.get(c).copied()).unwrap_or(done),
            "simulated_runs": done,
            "distinct_nontrivial": st.distinct.len(),
            "rule": eng.rule,
            "samples": st.samples,
            "scheduled_runs": scheduled,
            "simulated_runs_per_hour": if wall > 0.0 { (done as f64 / wall * 3600.0) as u64 } else { 0 },
            "seeds_per_hour": if wall > 0.0 { (done as f64 / wall * 3600.0) as u64 } else { 0 },
            "simulated_time_span_seconds": span,
            "simulated_time_from": st.t_min.min(st.t_max),
            "simulated_time_to": st.t_max,
            "zerv_processes": st.zerv_spawns,
            "git_processes_by_simulator": st.git_spawns,
            "fault_kinds_fired": faults,
            "probes": probes,
            "probes_at_zero": zero,
            "counters": other,
            "distinct_by_measure": named,
            "traces_validated_against_impl": st.counters.get("model_validated_against_plumbing").copied().unwrap_or(0),
            "real_vs_stub": eng.real_vs_stub,
            "known_findings_seen": st.known.iter().map(|(k, d)| json!({"id": k, "description": d})).collect::<Vec<_>>(),
            "raw_violating_observations": raw_viol,
        },
        "assumptions": eng.assumptions,
        "wall_s": wall,
        "violations": unknown,
    })
}

pub fn replay(ctx: &mut Ctx, path: &Path) -> i32 {
    let text = match std::fs::read_to_string(path) {
        Ok(t) => t,
        Err(e) => {
            println!("HARNESS-ERROR: cannot read {path:?}: {e}");
            return 2;
        }
    };
    let doc: Value = match serde_json::from_str(&text) {
        Ok(d) => d,
        Err(e) => {
            println!("HARNESS-ERROR: {path:?}: {e}");
            return 2;
        }
    };
    let id = doc["property"].as_str().unwrap_or("");
    let Some(eng) = engine(id) else {
        println!("HARNESS-ERROR: no engine for property {id:?}");
        return 2;
    };
    if let Some(init) = eng.init {
        if let Err(e) = init(ctx) {
            println!("HARNESS-ERROR: {}", e.0);
            return 2;
        }
    }
    ctx.tier = if doc["tier"].as_str() == Some("thorough") { Tier::Thorough } else { Tier::Quick };
    ctx.seed = doc["seed"].as_u64().unwrap_or(1);
    let want = doc["signature"].as_str().unwrap_or("").to_string();
    let r = exec_scenario(ctx, &eng, &doc["scenario"], "replay");
    if let Some(e) = r.herr {
        println!("HARNESS-ERROR: {}", norm(ctx, &e));
        return 2;
    }
    for e in &r.stats.events {
        println!("  {}", short(e, 700));
    }
    let sigs = sig_set(&r.viol);
    if let Some(v) = r.viol.iter().find(|v| v.signature() == want) {
        println!("REPRODUCED signature={want}");
        println!("  clause={} field={}\n  expected={}\n  actual={}\n  detail={}", v.clause, v.field, v.expected, v.actual, v.detail);
        1
    } else {
        println!("NOT-REPRODUCED wanted={want} got={sigs:?}");
        0
    }
}
