//! Shared simulator infrastructure: context, per-run scratch directory with the proxy
//! installed as the only `git`, the zerv launcher (clock shim, scratch environment),
//! violations, statistics and event logs.

use crate::proc::{self, Outcome, Spec, Stdin};
use crate::rng::fnv;
use serde::{Deserialize, Serialize};
use std::collections::{BTreeMap, BTreeSet};
use std::ffi::OsString;
use std::path::{Path, PathBuf};

#[derive(Clone, Copy, Debug, PartialEq, Eq)]
pub enum Tier {
    Quick,
    Thorough,
}

impl Tier {
    pub fn name(self) -> &'static str {
        match self {
            Tier::Quick => "quick",
            Tier::Thorough => "thorough",
        }
    }
}

#[derive(Clone, Debug)]
pub struct Ctx {
    pub zerv: PathBuf,
    pub shim: PathBuf,
    pub proxy: PathBuf,
    /// scratch root, e.g. /dev/shm/zsim-<pid>
    pub root: PathBuf,
    pub tier: Tier,
    pub seed: u64,
    pub verif_dir: PathBuf,
}

#[derive(Debug)]
pub struct HarnessError(pub String);

pub type HResult<T> = Result<T, HarnessError>;

#[derive(Serialize, Deserialize, Clone, Debug, PartialEq)]
pub struct Violation {
    pub property: String,
    pub clause: String,
    pub field: String,
    pub expected: String,
    pub actual: String,
    pub detail: String,
    /// identity of the one enumerated case that failed; the driver stores it in the scenario's
    /// `only` field so that minimisation and replay execute just that case
    #[serde(default, skip_serializing_if = "Option::is_none")]
    pub narrow: Option<String>,
}

impl Violation {
    pub fn new(property: &str, clause: &str, field: &str, expected: impl ToString, actual: impl ToString, detail: impl ToString) -> Violation {
        Violation {
            property: property.into(),
            clause: clause.into(),
            field: field.into(),
            expected: expected.to_string(),
            actual: actual.to_string(),
            detail: detail.to_string(),
            narrow: None,
        }
    }
    /// the violation *class* preserved during minimisation
    pub fn signature(&self) -> String {
        format!("{}/{}/{}", self.property, self.clause, self.field)
    }
}

/// Per-run statistics, merged in run-index order by the driver.
#[derive(Default, Clone, Debug)]
pub struct Stats {
    pub counters: BTreeMap<String, u64>,
    /// hashed keys of distinct non-trivial cases
    pub distinct: BTreeSet<u64>,
    /// additional named distinct-sets
    pub distinct_named: BTreeMap<String, BTreeSet<u64>>,
    pub events: Vec<String>,
    pub samples: Vec<serde_json::Value>,
    pub zerv_spawns: u64,
    pub git_spawns: u64,
    pub t_min: i64,
    pub t_max: i64,
    pub observations: Vec<serde_json::Value>,
    pub known: Vec<(String, String)>,
}

impl Stats {
    pub fn new() -> Stats {
        Stats { t_min: i64::MAX, t_max: i64::MIN, ..Default::default() }
    }
    pub fn bump(&mut self, k: &str) {
        *self.counters.entry(k.to_string()).or_insert(0) += 1;
    }
    pub fn add(&mut self, k: &str, n: u64) {
        *self.counters.entry(k.to_string()).or_insert(0) += n;
    }
    pub fn distinct_key(&mut self, k: &str) {
        self.distinct.insert(fnv(k));
    }
    pub fn distinct_in(&mut self, set: &str, k: &str) {
        self.distinct_named.entry(set.to_string()).or_default().insert(fnv(k));
    }
    pub fn event(&mut self, s: impl Into<String>) {
        self.events.push(s.into());
    }
    pub fn time(&mut self, t: i64) {
        self.t_min = self.t_min.min(t);
        self.t_max = self.t_max.max(t);
    }
    pub fn merge(&mut self, o: &Stats) {
        for (k, v) in &o.counters {
            *self.counters.entry(k.clone()).or_insert(0) += v;
        }
        self.distinct.extend(o.distinct.iter().copied());
        for (k, v) in &o.distinct_named {
            self.distinct_named.entry(k.clone()).or_default().extend(v.iter().copied());
        }
        self.zerv_spawns += o.zerv_spawns;
        self.git_spawns += o.git_spawns;
        self.t_min = self.t_min.min(o.t_min);
        self.t_max = self.t_max.max(o.t_max);
        if self.samples.len() < 6 {
            for s in &o.samples {
                if self.samples.len() < 6 {
                    self.samples.push(s.clone());
                }
            }
        }
        for k in &o.known {
            if !self.known.contains(k) {
                self.known.push(k.clone());
            }
        }
    }
    pub fn digest(&self) -> u64 {
        let mut h = 0xcbf29ce484222325u64;
        for e in &self.events {
            h ^= fnv(e);
            h = h.wrapping_mul(0x100000001b3);
        }
        h
    }
}

/// One run's scratch directory: `<root>/<label>/{repo,home,bin/git -> proxy,trace,plan}`.
pub struct RunDir {
    pub dir: PathBuf,
    keep: bool,
}

impl RunDir {
    pub fn new(ctx: &Ctx, label: &str) -> HResult<RunDir> {
        let dir = ctx.root.join(label);
        let _ = std::fs::remove_dir_all(&dir);
        std::fs::create_dir_all(dir.join("bin")).map_err(|e| HarnessError(format!("mkdir {dir:?}: {e}")))?;
        std::fs::create_dir_all(dir.join("home")).map_err(|e| HarnessError(format!("mkdir home: {e}")))?;
        std::os::unix::fs::symlink(&ctx.proxy, dir.join("bin/git")).map_err(|e| HarnessError(format!("symlink proxy: {e}")))?;
        Ok(RunDir { dir, keep: false })
    }
    pub fn keep(&mut self) {
        self.keep = true;
    }
    pub fn repo(&self) -> PathBuf {
        self.dir.join("repo")
    }
    pub fn home(&self) -> PathBuf {
        self.dir.join("home")
    }
    pub fn bin(&self) -> PathBuf {
        self.dir.join("bin")
    }
    pub fn set_plan(&self, plan: &str) {
        let _ = std::fs::write(self.dir.join("plan"), plan);
    }
    pub fn reset_trace(&self) {
        let _ = std::fs::remove_file(self.dir.join("trace"));
    }
    /// (k, decision, argv-json)
    pub fn trace(&self) -> Vec<(usize, String, String)> {
        let t = std::fs::read_to_string(self.dir.join("trace")).unwrap_or_default();
        t.lines()
            .filter_map(|l| {
                let mut it = l.splitn(3, '\t');
                let k = it.next()?.parse().ok()?;
                let d = it.next()?.to_string();
                let a = it.next().unwrap_or("").to_string();
                Some((k, d, a))
            })
            .collect()
    }
}

impl Drop for RunDir {
    fn drop(&mut self) {
        if !self.keep {
            let _ = std::fs::remove_dir_all(&self.dir);
        }
    }
}

/// How one zerv child is started.  Everything the process can observe is listed here.
#[derive(Clone, Debug)]
pub struct ZervCall {
    pub args: Vec<OsString>,
    pub cwd: PathBuf,
    pub sim_now: i64,
    /// extra / overriding environment, applied after the base environment
    pub env: Vec<(String, String)>,
    /// variables removed from the base environment
    pub unset: Vec<String>,
    pub stdin: Stdin,
    /// PATH override (default: the run's bin directory with the proxy as the only git)
    pub path: Option<String>,
    pub rm_cwd: bool,
    pub stdout: crate::proc::Stdout,
    pub stderr: crate::proc::Stdout,
    /// run this executable instead of ctx.zerv (e.g. a symlink to it)
    pub exe: Option<PathBuf>,
    pub umask: Option<u32>,
    pub cpus: Option<usize>,
}

impl ZervCall {
    pub fn new(args: &[&str], cwd: &Path, sim_now: i64) -> ZervCall {
        ZervCall {
            args: args.iter().map(OsString::from).collect(),
            cwd: cwd.to_path_buf(),
            sim_now,
            env: vec![],
            unset: vec![],
            stdin: Stdin::Null,
            path: None,
            rm_cwd: false,
            stdout: crate::proc::Stdout::Capture,
            stderr: crate::proc::Stdout::Capture,
            exe: None,
            umask: None,
            cpus: None,
        }
    }
    pub fn args_string(&self) -> String {
        self.args.iter().map(|a| format!("{:?}", a.to_string_lossy())).collect::<Vec<_>>().join(" ")
    }
}

pub fn base_env(ctx: &Ctx, rd: &RunDir, sim_now: i64) -> Vec<(String, String)> {
    vec![
        ("PATH".into(), rd.bin().to_string_lossy().to_string()),
        ("HOME".into(), rd.home().to_string_lossy().to_string()),
        ("GIT_CONFIG_NOSYSTEM".into(), "1".into()),
        ("GIT_CONFIG_GLOBAL".into(), "/dev/null".into()),
        ("LD_PRELOAD".into(), ctx.shim.to_string_lossy().to_string()),
        ("SIM_NOW".into(), sim_now.to_string()),
        ("ZSIM_DIR".into(), rd.dir.to_string_lossy().to_string()),
        ("TZ".into(), "UTC".into()),
        ("LANG".into(), "C".into()),
    ]
}

pub fn run_zerv(ctx: &Ctx, rd: &RunDir, call: &ZervCall, stats: &mut Stats) -> Outcome {
    let mut env: Vec<(String, String)> = base_env(ctx, rd, call.sim_now);
    if let Some(p) = &call.path {
        env.retain(|(k, _)| k != "PATH");
        env.push(("PATH".into(), p.clone()));
    }
    env.retain(|(k, _)| !call.unset.contains(k));
    for (k, v) in &call.env {
        env.retain(|(k2, _)| k2 != k);
        env.push((k.clone(), v.clone()));
    }
    let spec = Spec {
        exe: call.exe.clone().unwrap_or_else(|| ctx.zerv.clone()),
        args: call.args.clone(),
        env: env.into_iter().map(|(k, v)| (OsString::from(k), OsString::from(v))).collect(),
        cwd: call.cwd.clone(),
        stdin: call.stdin.clone(),
        rm_cwd: call.rm_cwd,
        mem_limit: Some(8 << 30),
        stdout: call.stdout,
        stderr: call.stderr,
        umask: call.umask,
        cpus: call.cpus,
    };
    stats.zerv_spawns += 1;
    proc::run(&spec)
}

/// Replace the run-specific scratch root by `$ROOT` (before anything is logged or hashed).
pub fn norm(ctx: &Ctx, s: &str) -> String {
    norm_thread_ids(&s.replace(&*ctx.root.to_string_lossy(), "$ROOT"))
}

/// Rust's panic and stack-overflow messages name the thread with its OS id – `thread 'main' (12130)
/// panicked at …` – which is process identity, not behaviour: replaced by `(N)` in logs and digests.
pub fn norm_thread_ids(s: &str) -> String {
    let mut out = String::with_capacity(s.len());
    let mut rest = s;
    while let Some(i) = rest.find("thread '") {
        let (head, tail) = rest.split_at(i);
        out.push_str(head);
        // thread '<name>' (<digits>)
        if let Some(q) = tail[8..].find("' (") {
            let after = &tail[8 + q + 3..];
            let digits = after.bytes().take_while(|b| b.is_ascii_digit()).count();
            if digits > 0 && after[digits..].starts_with(')') {
                out.push_str(&tail[..8 + q + 3]);
                out.push('N');
                rest = &after[digits..];
                continue;
            }
        }
        out.push_str(&tail[..8]);
        rest = &tail[8..];
    }
    out.push_str(rest);
    out
}

pub fn short(s: &str, n: usize) -> String {
    if s.chars().count() <= n {
        s.to_string()
    } else {
        let t: String = s.chars().take(n).collect();
        format!("{t}…(+{} chars)", s.chars().count() - n)
    }
}
