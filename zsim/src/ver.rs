//! Independent SemVer 2.0.0 and PEP 440 parsers and comparators, written from the two
//! specifications for the oracles (never zerv's own code).  Numbers are arbitrary precision
//! (digit strings compared by length, then lexically).

use std::cmp::Ordering;

fn cmp_num(a: &str, b: &str) -> Ordering {
    let a = a.trim_start_matches('0');
    let b = b.trim_start_matches('0');
    a.len().cmp(&b.len()).then_with(|| a.cmp(b))
}

fn is_digits(s: &str) -> bool {
    !s.is_empty() && s.bytes().all(|c| c.is_ascii_digit())
}

// ---------------------------------------------------------------- SemVer

#[derive(Clone, Debug, PartialEq, Eq)]
pub struct SemVer {
    pub major: String,
    pub minor: String,
    pub patch: String,
    pub pre: Vec<String>,
    pub build: Vec<String>,
}

fn semver_num(s: &str) -> bool {
    is_digits(s) && (s == "0" || !s.starts_with('0'))
}

/// SemVer 2.0.0 (§2, §9, §10) with the optional leading `v` that zerv documents for tags.
pub fn parse_semver(s: &str) -> Option<SemVer> {
    let s = s.strip_prefix('v').unwrap_or(s);
    let (rest, build) = match s.find('+') {
        Some(i) => (&s[..i], Some(&s[i + 1..])),
        None => (s, None),
    };
    let (core, pre) = match rest.find('-') {
        Some(i) => (&rest[..i], Some(&rest[i + 1..])),
        None => (rest, None),
    };
    let parts: Vec<&str> = core.split('.').collect();
    if parts.len() != 3 || !parts.iter().all(|p| semver_num(p)) {
        return None;
    }
    let ident_ok = |p: &str| !p.is_empty() && p.bytes().all(|c| c.is_ascii_alphanumeric() || c == b'-');
    let mut pre_v = vec![];
    if let Some(p) = pre {
        for id in p.split('.') {
            if !ident_ok(id) {
                return None;
            }
            if is_digits(id) && !semver_num(id) {
                return None; // numeric identifiers must not have leading zeros
            }
            pre_v.push(id.to_string());
        }
    }
    let mut build_v = vec![];
    if let Some(b) = build {
        for id in b.split('.') {
            if !ident_ok(id) {
                return None;
            }
            build_v.push(id.to_string());
        }
    }
    Some(SemVer {
        major: parts[0].into(),
        minor: parts[1].into(),
        patch: parts[2].into(),
        pre: pre_v,
        build: build_v,
    })
}

/// SemVer §11 precedence (build metadata ignored).
pub fn cmp_semver(a: &SemVer, b: &SemVer) -> Ordering {
    cmp_num(&a.major, &b.major)
        .then_with(|| cmp_num(&a.minor, &b.minor))
        .then_with(|| cmp_num(&a.patch, &b.patch))
        .then_with(|| match (a.pre.is_empty(), b.pre.is_empty()) {
            (true, true) => Ordering::Equal,
            (true, false) => Ordering::Greater,
            (false, true) => Ordering::Less,
            (false, false) => {
                for (x, y) in a.pre.iter().zip(b.pre.iter()) {
                    let o = match (is_digits(x), is_digits(y)) {
                        (true, true) => cmp_num(x, y),
                        (true, false) => Ordering::Less,
                        (false, true) => Ordering::Greater,
                        (false, false) => x.as_bytes().cmp(y.as_bytes()),
                    };
                    if o != Ordering::Equal {
                        return o;
                    }
                }
                a.pre.len().cmp(&b.pre.len())
            }
        })
}

// ---------------------------------------------------------------- PEP 440

#[derive(Clone, Debug, PartialEq, Eq)]
pub struct Pep440 {
    pub epoch: String,
    pub release: Vec<String>,
    pub pre: Option<(u8, String)>, // 0 = a, 1 = b, 2 = rc
    pub post: Option<String>,
    pub dev: Option<String>,
    pub local: Vec<String>, // lower-cased segments
}

struct Cur<'a> {
    s: &'a [u8],
    i: usize,
}
impl<'a> Cur<'a> {
    fn eof(&self) -> bool {
        self.i >= self.s.len()
    }
    fn peek(&self) -> Option<u8> {
        self.s.get(self.i).copied()
    }
    fn digits(&mut self) -> Option<String> {
        let st = self.i;
        while self.peek().map(|c| c.is_ascii_digit()).unwrap_or(false) {
            self.i += 1;
        }
        if self.i > st {
            Some(String::from_utf8_lossy(&self.s[st..self.i]).to_string())
        } else {
            None
        }
    }
    fn sep(&mut self) -> bool {
        if matches!(self.peek(), Some(b'-') | Some(b'_') | Some(b'.')) {
            self.i += 1;
            true
        } else {
            false
        }
    }
    fn word(&mut self, words: &[&str]) -> Option<usize> {
        // longest match first
        let mut best: Option<(usize, usize)> = None;
        for (k, w) in words.iter().enumerate() {
            let wb = w.as_bytes();
            if self.s.len() >= self.i + wb.len()
                && self.s[self.i..self.i + wb.len()].eq_ignore_ascii_case(wb)
                && best.map(|(_, l)| wb.len() > l).unwrap_or(true)
            {
                best = Some((k, wb.len()));
            }
        }
        best.map(|(k, l)| {
            self.i += l;
            k
        })
    }
}

/// PEP 440 public + local version identifiers including the normalisations of the
/// specification's Appendix B regular expression (case, separators, alternate spellings,
/// implicit numbers, leading `v`).  Leading / trailing whitespace is not accepted (tags
/// cannot contain it).
pub fn parse_pep440(s: &str) -> Option<Pep440> {
    if !s.is_ascii() {
        return None;
    }
    let mut c = Cur { s: s.as_bytes(), i: 0 };
    if matches!(c.peek(), Some(b'v') | Some(b'V')) {
        c.i += 1;
    }
    // epoch
    let save = c.i;
    let mut epoch = "0".to_string();
    if let Some(d) = c.digits() {
        if c.peek() == Some(b'!') {
            c.i += 1;
            epoch = d;
        } else {
            c.i = save;
        }
    }
    // release
    let mut release = vec![c.digits()?];
    loop {
        let save = c.i;
        if c.peek() == Some(b'.') {
            c.i += 1;
            if let Some(d) = c.digits() {
                release.push(d);
                continue;
            }
        }
        c.i = save;
        break;
    }
    // pre
    let mut pre = None;
    {
        let save = c.i;
        c.sep();
        let words = ["alpha", "a", "beta", "b", "preview", "pre", "c", "rc"];
        if let Some(k) = c.word(&words) {
            let cls = match words[k] {
                "alpha" | "a" => 0,
                "beta" | "b" => 1,
                _ => 2,
            };
            let save2 = c.i;
            c.sep();
            match c.digits() {
                Some(d) => pre = Some((cls, d)),
                None => {
                    c.i = save2;
                    pre = Some((cls, "0".to_string()));
                }
            }
        } else {
            c.i = save;
        }
    }
    // post
    let mut post = None;
    {
        let save = c.i;
        // "-N" form
        if c.peek() == Some(b'-') {
            c.i += 1;
            if let Some(d) = c.digits() {
                post = Some(d);
            } else {
                c.i = save;
            }
        }
        if post.is_none() {
            c.i = save;
            c.sep();
            if c.word(&["post", "rev", "r"]).is_some() {
                let save2 = c.i;
                c.sep();
                match c.digits() {
                    Some(d) => post = Some(d),
                    None => {
                        c.i = save2;
                        post = Some("0".to_string());
                    }
                }
            } else {
                c.i = save;
            }
        }
    }
    // dev
    let mut dev = None;
    {
        let save = c.i;
        c.sep();
        if c.word(&["dev"]).is_some() {
            let save2 = c.i;
            c.sep();
            match c.digits() {
                Some(d) => dev = Some(d),
                None => {
                    c.i = save2;
                    dev = Some("0".to_string());
                }
            }
        } else {
            c.i = save;
        }
    }
    // local
    let mut local = vec![];
    if c.peek() == Some(b'+') {
        c.i += 1;
        loop {
            let st = c.i;
            while c.peek().map(|x| x.is_ascii_alphanumeric()).unwrap_or(false) {
                c.i += 1;
            }
            if c.i == st {
                return None;
            }
            local.push(String::from_utf8_lossy(&c.s[st..c.i]).to_ascii_lowercase());
            if c.eof() {
                break;
            }
            if !c.sep() {
                return None;
            }
        }
    }
    if !c.eof() {
        return None;
    }
    Some(Pep440 { epoch, release, pre, post, dev, local })
}

#[derive(PartialEq, Eq, PartialOrd, Ord, Debug)]
enum Ext<T: Ord> {
    NegInf,
    Val(T),
    PosInf,
}

#[derive(PartialEq, Eq, Debug)]
struct Num(String);
impl PartialOrd for Num {
    fn partial_cmp(&self, o: &Self) -> Option<Ordering> {
        Some(self.cmp(o))
    }
}
impl Ord for Num {
    fn cmp(&self, o: &Self) -> Ordering {
        cmp_num(&self.0, &o.0)
    }
}

/// PEP 440 ordering ("Summary of permitted suffixes and relative ordering"), the same key
/// construction `packaging.version` documents: trailing zeros of the release are
/// insignificant; dev-only sorts before pre-releases; post after; local after public.
pub fn cmp_pep440(a: &Pep440, b: &Pep440) -> Ordering {
    cmp_pep440_with(a, b, false)
}

/// `dev_only_high = true` reproduces one known deviation of zerv's own ordering (known finding
/// KF-C02-pep440-dev-order): a dev release without pre/post segment (`X.devN`) is ranked with the
/// final releases, above every pre-release of X, instead of below them.  Only used to *identify*
/// that finding, never as the oracle.
pub fn cmp_pep440_with(a: &Pep440, b: &Pep440, dev_only_high: bool) -> Ordering {
    fn rel(v: &Pep440) -> Vec<Num> {
        let mut r: Vec<&String> = v.release.iter().collect();
        while r.len() > 1 && r.last().map(|x| x.trim_start_matches('0').is_empty()).unwrap_or(false) {
            r.pop();
        }
        r.into_iter().map(|x| Num(x.clone())).collect()
    }
    let pre = |v: &Pep440| -> Ext<(u8, Num)> {
        match (&v.pre, &v.post, &v.dev) {
            (None, None, Some(_)) if !dev_only_high => Ext::NegInf,
            (None, _, _) => Ext::PosInf,
            (Some((c, n)), _, _) => Ext::Val((*c, Num(n.clone()))),
        }
    };
    fn post(v: &Pep440) -> Ext<Num> {
        match &v.post {
            None => Ext::NegInf,
            Some(n) => Ext::Val(Num(n.clone())),
        }
    }
    fn dev(v: &Pep440) -> Ext<Num> {
        match &v.dev {
            None => Ext::PosInf,
            Some(n) => Ext::Val(Num(n.clone())),
        }
    }
    // local: numeric segments sort after alphanumeric ones; shorter prefix first
    fn cmp_local(a: &[String], b: &[String]) -> Ordering {
        match (a.is_empty(), b.is_empty()) {
            (true, true) => return Ordering::Equal,
            (true, false) => return Ordering::Less,
            (false, true) => return Ordering::Greater,
            _ => {}
        }
        for (x, y) in a.iter().zip(b.iter()) {
            let o = match (is_digits(x), is_digits(y)) {
                (true, true) => cmp_num(x, y),
                (true, false) => Ordering::Greater,
                (false, true) => Ordering::Less,
                (false, false) => x.cmp(y),
            };
            if o != Ordering::Equal {
                return o;
            }
        }
        a.len().cmp(&b.len())
    }
    cmp_num(&a.epoch, &b.epoch)
        .then_with(|| {
            // release: compare with zero padding (trailing zeros already trimmed)
            let (ra, rb) = (rel(a), rel(b));
            let n = ra.len().max(rb.len());
            for i in 0..n {
                let z = Num("0".into());
                let x = ra.get(i).unwrap_or(&z);
                let y = rb.get(i).unwrap_or(&z);
                let o = x.cmp(y);
                if o != Ordering::Equal {
                    return o;
                }
            }
            Ordering::Equal
        })
        .then_with(|| pre(a).cmp(&pre(b)))
        .then_with(|| post(a).cmp(&post(b)))
        .then_with(|| dev(a).cmp(&dev(b)))
        .then_with(|| cmp_local(&a.local, &b.local))
}

/// The three leading release numbers when the release has exactly three components.
pub fn release3(tag: &str) -> Option<(String, String, String)> {
    if let Some(s) = parse_semver(tag) {
        return Some((s.major, s.minor, s.patch));
    }
    if let Some(p) = parse_pep440(tag) {
        if p.release.len() == 3 {
            let n = |s: &String| {
                let t = s.trim_start_matches('0');
                if t.is_empty() { "0".to_string() } else { t.to_string() }
            };
            return Some((n(&p.release[0]), n(&p.release[1]), n(&p.release[2])));
        }
    }
    None
}

#[cfg(test)]
mod tests {
    use super::*;
    fn sv(s: &str) -> SemVer {
        parse_semver(s).unwrap_or_else(|| panic!("semver {s}"))
    }
    fn pv(s: &str) -> Pep440 {
        parse_pep440(s).unwrap_or_else(|| panic!("pep440 {s}"))
    }

    #[test]
    fn semver_spec_chain() {
        // SemVer 2.0.0 §11.4 example
        let chain = [
            "1.0.0-alpha", "1.0.0-alpha.1", "1.0.0-alpha.beta", "1.0.0-beta", "1.0.0-beta.2",
            "1.0.0-beta.11", "1.0.0-rc.1", "1.0.0", "2.0.0", "2.1.0", "2.1.1",
        ];
        for i in 0..chain.len() {
            for j in 0..chain.len() {
                assert_eq!(cmp_semver(&sv(chain[i]), &sv(chain[j])), i.cmp(&j), "{} {}", chain[i], chain[j]);
            }
        }
        assert_eq!(cmp_semver(&sv("1.0.0+a"), &sv("1.0.0+b")), Ordering::Equal);
        assert_eq!(cmp_semver(&sv("1.0.0-1"), &sv("1.0.0-a")), Ordering::Less);
        assert_eq!(cmp_semver(&sv("1.0.0-A"), &sv("1.0.0-a")), Ordering::Less);
        assert_eq!(cmp_semver(&sv("v1.0.0"), &sv("1.0.0")), Ordering::Equal);
        assert_eq!(
            cmp_semver(&sv("1.0.0-99999999999999999999999"), &sv("1.0.0-100000000000000000000000")),
            Ordering::Less
        );
    }

    #[test]
    fn semver_grammar() {
        for ok in ["0.0.0", "1.2.3-0", "1.2.3-a-b.--", "1.2.3+001", "1.2.3-x+y.z", "v10.20.30", "1.0.0-0a", "1.0.0-00a"] {
            assert!(parse_semver(ok).is_some(), "{ok}");
        }
        for bad in [
            "1", "1.2", "1.2.3.4", "01.2.3", "1.02.3", "1.2.03", "1.2.3-", "1.2.3-01", "1.2.3-a..b", "1.2.3+",
            "1.2.3+a..b", "1.2.3-a_b", "V1.2.3", "vv1.2.3", " 1.2.3", "1.2.3 ", "1.2.3-é", "", "1.2.3rc1",
        ] {
            assert!(parse_semver(bad).is_none(), "{bad}");
        }
    }

    #[test]
    fn pep440_spec_chain() {
        // PEP 440 "Summary of permitted suffixes and relative ordering"
        let chain = [
            "1.dev0", "1.0.dev456", "1.0a1", "1.0a2.dev456", "1.0a12.dev456", "1.0a12", "1.0b1.dev456",
            "1.0b2", "1.0b2.post345.dev456", "1.0b2.post345", "1.0rc1.dev456", "1.0rc1", "1.0",
            "1.0+abc.5", "1.0+abc.7", "1.0+5", "1.0.post456.dev34", "1.0.post456", "1.0.15", "1.1.dev1",
        ];
        for i in 0..chain.len() {
            for j in 0..chain.len() {
                let want = if i == 0 && j == 1 || i == 1 && j == 0 { continue } else { i.cmp(&j) };
                assert_eq!(cmp_pep440(&pv(chain[i]), &pv(chain[j])), want, "{} {}", chain[i], chain[j]);
            }
        }
        assert_eq!(cmp_pep440(&pv("1.dev0"), &pv("1.0.dev456")), Ordering::Less);
        assert_eq!(cmp_pep440(&pv("1!0.1"), &pv("2.0")), Ordering::Greater);
        assert_eq!(cmp_pep440(&pv("1.0"), &pv("1.0.0.0")), Ordering::Equal);
        assert_eq!(cmp_pep440(&pv("1.0+foo"), &pv("1.0+foo.1")), Ordering::Less);
        assert_eq!(cmp_pep440(&pv("1.0+a"), &pv("1.0+1")), Ordering::Less);
    }

    #[test]
    fn pep440_spellings() {
        let eq = [
            ("1.0a1", "1.0-alpha.1"), ("1.0a1", "1.0_ALPHA_1"), ("1.0rc1", "1.0c1"), ("1.0rc1", "1.0-pre1"),
            ("1.0rc0", "1.0preview"), ("1.0.post1", "1.0-1"), ("1.0.post1", "1.0rev1"), ("1.0.post0", "1.0-r"),
            ("1.0.dev0", "1.0dev"), ("1.0.dev3", "1.0-DEV_3"), ("v1.0", "1.0"), ("1.0+ubuntu.1", "1.0+Ubuntu-1"),
            ("0!1.0", "1.0"), ("1.0.post2.dev3", "1.0-2.dev3"), ("01.002", "1.2"),
        ];
        for (a, b) in eq {
            assert_eq!(cmp_pep440(&pv(a), &pv(b)), Ordering::Equal, "{a} {b}");
        }
        for bad in ["", "a", "1.", "1..2", "1.0+", "1.0+a..b", "1.0-", "1.0x", "1.0+a b", "1!", "!1", "1.0.post", "é1.0"] {
            let r = parse_pep440(bad);
            if bad == "1.0.post" {
                assert!(r.is_some()); // implicit post number
            } else {
                assert!(r.is_none(), "{bad}");
            }
        }
    }
}
