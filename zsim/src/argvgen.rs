//! Argument-vector workload: flags are discovered from the binary under test (`zerv <sub>
//! --help` is parsed once per process, so a renamed flag cannot desynchronise the generator),
//! values are drawn from adversarial classes chosen by flag name (DESIGN.md §4 C13 "Workload").

use crate::rng::Rng;
use crate::sim::*;
use std::collections::BTreeMap;
use std::path::Path;
use std::sync::OnceLock;

#[derive(Clone, Debug)]
pub struct Flag {
    pub long: String,
    /// None: switch; Some(placeholder): takes a value
    pub value: Option<String>,
    pub optional_value: bool,
}

pub type FlagTable = BTreeMap<String, Vec<Flag>>;

static FLAGS: OnceLock<FlagTable> = OnceLock::new();

pub fn flags() -> &'static FlagTable {
    FLAGS.get().expect("argvgen::init not called")
}

pub const SUBCOMMANDS: [&str; 4] = ["version", "flow", "check", "render"];

pub fn parse_help(text: &str) -> Vec<Flag> {
    let mut out = vec![];
    for line in text.lines() {
        let t = line.trim_start();
        if !(line.starts_with("  ") && (t.starts_with("--") || (t.starts_with('-') && t.contains(", --")))) {
            continue;
        }
        let Some(pos) = t.find("--") else { continue };
        let rest = &t[pos + 2..];
        let name: String = rest.chars().take_while(|c| c.is_ascii_alphanumeric() || *c == '-').collect();
        if name.is_empty() {
            continue;
        }
        let after = rest[name.len()..].trim();
        let (value, optional_value) = if after.starts_with("[<") {
            (Some(after.trim_matches(|c| c == '[' || c == ']' || c == '<' || c == '>' || c == '.').to_string()), true)
        } else if after.starts_with('<') {
            (Some(after.trim_matches(|c| c == '<' || c == '>' || c == '.').to_string()), false)
        } else {
            (None, false)
        };
        out.push(Flag { long: name, value, optional_value });
    }
    out
}

pub fn init(ctx: &Ctx) -> HResult<()> {
    if FLAGS.get().is_some() {
        return Ok(());
    }
    let rd = RunDir::new(ctx, "flag-discovery")?;
    let mut table = FlagTable::new();
    let mut st = Stats::new();
    for sub in SUBCOMMANDS {
        let o = run_zerv(ctx, &rd, &ZervCall::new(&[sub, "--help"], Path::new("/"), 1_700_000_000), &mut st);
        if !o.ok() {
            return Err(HarnessError(format!("`zerv {sub} --help` failed: {} {}", o.status_str(), o.err_str())));
        }
        let f = parse_help(&o.out_str());
        if f.len() < 3 {
            return Err(HarnessError(format!("could not discover flags of `zerv {sub}` ({} found)", f.len())));
        }
        table.insert(sub.to_string(), f);
    }
    let _ = FLAGS.set(table);
    Ok(())
}

// ---------------------------------------------------------------------------- value classes

pub const NUMS: &[&str] = &[
    "0", "1", "2", "5", "10", "255", "65535", "2147483647", "2147483648", "4294967295", "4294967296",
    "9223372036854775807", "9223372036854775808", "18446744073709551614", "18446744073709551615",
    "18446744073709551616", "340282366920938463463374607431768211456", "-1", "-0", "1.5", "1e3", "abc", "",
    "１２", "٣", "0x10", " 7", "+7", "007", "{{ distance }}", "{{ major + 1 }}", "{{ 1/0 }}",
];

pub const TEXTS: &[&str] = &[
    "main", "develop", "release/1", "release/1/2", "release/x", "feature/login", "é", "日本語", "a\u{0301}", "", "-", "--", "x y", "ſ",
    "\u{1F680}", "a\nb", "a\"b", "a\\b", "{{ major }}", "{{", "%s%n", "ÀÉÎ", "İ", "ß", "ǅ", "٣", "ｆｕｌｌ", "a/b/c/d/e/f", "....", "/",
    "\u{200b}", "\u{feff}x", "\u{202e}rtl", "null", "None", "0", "00012", "\t", "a\r\nb", "\r", "x\ty", " lead", "trail ", "a\u{0085}b", "a\u{2028}b",
];

pub const HASHES: &[&str] = &[
    "abc1234", "gabcdef1234567890", "ééééééé", "日本語日本語日", "g", "", "GHIJKL", "0123456789abcdef0123456789abcdef01234567",
    "g0123456789abcdef0123456789abcdef01234567", "abcdefé", "abcdefg\u{1F680}", "1234567", "a", "ｇabcdef12345",
];

pub const VERSIONS: &[&str] = &[
    "1.2.3", "v1.2.3", "1.2.3-alpha.1", "1.2.3-rc.1.post.2", "1.2.3rc1", "1!2.3", "1.0.0+build.5", "18446744073709551615.0.0",
    "18446744073709551616.0.0", "1.18446744073709551615.18446744073709551615", "1.2", "1", "abc", "", "1.2.3-é", "٣.٤.٥", "1.2.3-01",
    "0.0.0", "99999999999999999999.1.1", "1.0.0-alpha.18446744073709551615", "1.0.0-alpha.18446744073709551616",
    "1.0.0.post18446744073709551615", "4294967295!1.0", "4294967296!1.0", "1.0.dev4294967296", "1.0.0-rc.4294967295", "1.0.0rc4294967296",
    "1.2.3.4.5.6.7.8.9", "1.0a", "1.0.post", "1.0+", "1.0+a..b", "1.0.0-", "1.0.0+", "v", "V1.0", " 1.0.0", "1.0.0 ", "1.0.0\n",
    "1.0.0-a.b.c.d.e.f.g.h.i.j.k", "1.0.0-post.1.dev.2", "1.0.0-dev.1", "1.0.0-epoch.1", "1.0.0-epoch.1.alpha.2", "2.0.0-alpha",
    "1.0.0-epoch.epoch.epoch", "1.0.0-post.post.post", "1.0.0-dev.dev.dev.1", "1.0.0-post.dev.post.dev", "1.0.0-alpha.alpha", "1.0.0-rc.1.rc.2",
    "1.0.0-epoch.1.epoch.2", "1.0.0-alpha.1.post.2.post.3", "1.0.0-epoch.0", "1.0.0+é", "1.0.0-ſ", "1.0.0-\u{0660}a", "1.0.0-alpha.beta", "1.0.0-0.3.7", "1.0.0-x-y-z.--",
    "(schema:(core:[var(Major)],extra_core:[],build:[]),vars:(major:Some(1)))", "()", "(",
];

pub const TEMPLATES: &[&str] = &[
    "{{ major }}.{{ minor }}.{{ patch }}", "{{", "{% if %}", "{{ unknown_var }}", "{{ major | nope }}", "{% for x in custom %}{{ x }}{% endfor %}",
    "{{ prefix(value=bumped_branch, length=1) }}", "{{ prefix(value='ééé', length=1) }}", "{{ prefix(value='日本語', length=4) }}",
    "{{ prefix(value='abc', length=0) }}", "{{ prefix(value=bumped_branch, length=3) }}", "{{ prefix(value=bumped_commit_hash, length=2) }}",
    "{{ sanitize(value='ééé', max_length=1) }}", "{{ sanitize(value='ééé', preset='dotted') }}", "{{ sanitize(value='a/b', separator='é', max_length=3) }}",
    "{{ sanitize(value=bumped_branch, max_length=2) }}", "{{ sanitize(value=bumped_branch, preset='pep440') }}", "{{ sanitize(value='x', preset='nope') }}",
    "{{ sanitize(value='Feature/ÄB', lowercase=true, max_length=9) }}", "{{ sanitize(value='0007', preset='uint') }}", "{{ sanitize(value='', preset='uint') }}",
    "{{ sanitize(value='99999999999999999999999', preset='uint') }}", "{{ sanitize(value=bumped_branch, separator='', max_length=1) }}",
    "{{ format_timestamp(value=bumped_timestamp, format='%Q') }}", "{{ format_timestamp(value=1700000000, format='%') }}",
    "{{ format_timestamp(value=1700000000, format='%Y-%m-%d %H:%M:%S %z %Z %A %B %j %U %e %+ %s %f %3f %:z %#z') }}",
    "{{ format_timestamp(value=1700000000, format='%-') }}", "{{ format_timestamp(value=1700000000, format='%!') }}",
    "{{ format_timestamp(value=1700000000, format='%é') }}", "{{ format_timestamp(value=1700000000, format='%10') }}",
    "{{ format_timestamp(value=-1) }}", "{{ format_timestamp(value=99999999999999) }}", "{{ format_timestamp(value=9223372036854775807) }}",
    "{{ format_timestamp(value=18446744073709551615) }}", "{{ format_timestamp(value=253402300800) }}", "{{ format_timestamp(value=8210298412799) }}",
    "{{ format_timestamp(value=1700000000, format='compact_date') }}", "{{ format_timestamp(value=1700000000, format='compact_datetime') }}",
    "{{ format_timestamp() }}", "{{ format_timestamp(value='x') }}", "{{ format_timestamp(value=current_timestamp, format='%s') }}",
    "{{ hash(value='x', length=0) }}", "{{ hash(value='x', length=100) }}", "{{ hash(value=bumped_branch) }}", "{{ hash(value='é', length=1) }}",
    "{{ hash_int(value='x', length=0) }}", "{{ hash_int(value='x', length=30) }}", "{{ hash_int(value='x', length=30, allow_leading_zero=true) }}",
    "{{ hash_int(value='x', length=1000000000000, allow_leading_zero=true) }}", "{{ hash_int(value='x', length=18446744073709551615, allow_leading_zero=true) }}",
    "{{ hash_int(value=bumped_branch, length=5) }}", "{{ hash_int(value='', length=5) }}", "{{ hash_int() }}",
    "{{ prefix_if(value=bumped_branch, prefix='+') }}", "{{ prefix_if(value='') }}", "{{ prefix_if(prefix='x') }}",
    "{{ 1/0 }}", "{{ 1 % 0 }}", "{{ major + 18446744073709551615 }}", "{{ major * 99999999999 * 99999999999 }}", "{{ 9223372036854775807 + 1 }}",
    "{{ semver }}", "{{ pep440 }}", "{{ semver_obj.docker }}", "{{ semver_obj.base_part }}-{{ semver_obj.pre_release_part }}",
    "{{ pep440_obj.base_part }}{{ pep440_obj.build_part }}", "{{ pre_release.label }}{{ pre_release.number }}", "{{ pre_release.label_code }}",
    "{{ custom.a.b }}", "{{ custom }}", "{{ custom | json_encode }}", "{{ bumped_branch | upper | truncate(length=2) }}",
    "{{ bumped_branch | truncate(length=1) }}", "{{ bumped_branch | slugify }}", "{{ bumped_timestamp | date(format='%Y') }}",
    "{{ bumped_timestamp | date(format='%Q') }}", "{{ now() }}", "{{ get_env(name='HOME') }}", "{{ get_env(name='NOPE_NOT_SET') }}",
    "{{ get_random(start=0, end=0) }}", "{{ range(end=0) }}", "{{ bumped_branch | split(pat='') }}", "{{ 'x' | int }}", "{{ 'é' | capitalize }}",
    "{{ bumped_branch | replace(from='', to='x') }}", "{{ major | pluralize }}", "{{ bumped_branch | filesizeformat }}",
    "{% include 'x' %}", "{% extends 'x' %}", "{% raw %}{{{% endraw %}", "plain text", "", "\n", "{{ dirty }}/{{ distance }}",
    "{{ last_commit_hash_short }}{{ bumped_commit_hash_short }}", "{{ last_timestamp }}", "{{ current_timestamp - bumped_timestamp }}",
    "{{ bumped_timestamp - current_timestamp }}", "{{ 0 - 1 }}", "{{ distance - 1 }}", "{{ post - 1000 }}",
];

pub const SCHEMAS: &[&str] = &[
    "standard", "standard-base", "standard-base-prerelease", "standard-base-prerelease-post", "standard-base-prerelease-post-dev",
    "standard-base-context", "standard-base-prerelease-context", "standard-base-prerelease-post-context",
    "standard-base-prerelease-post-dev-context", "standard-context", "standard-no-context", "calver", "calver-base", "calver-base-prerelease",
    "calver-base-prerelease-post", "calver-base-prerelease-post-dev", "calver-base-context", "calver-base-prerelease-context",
    "calver-base-prerelease-post-context", "calver-base-prerelease-post-dev-context", "calver-context", "nope", "", "STANDARD", "zerv-standard",
];

pub const SCHEMA_RONS: &[&str] = &[
    "(core:[var(Major),var(Minor),var(Patch)],extra_core:[var(PreRelease)],build:[])",
    "(core:[var(Major)],extra_core:[],build:[var(BumpedBranch),var(Distance)])",
    "(core:[var(ts(\"YYYY\")),var(ts(\"MM\")),var(ts(\"DD\"))],extra_core:[var(Epoch),var(PreRelease),var(Post),var(Dev)],build:[var(custom(\"a.b\"))])",
    "(core:[var(ts(\"YYYYMMDD\"))],extra_core:[],build:[])",
    "(core:[var(ts(\"QQ\"))],extra_core:[],build:[])",
    "(core:[var(Major),var(ts(\"%Q\"))],extra_core:[],build:[var(ts(\"%\")),var(ts(\"%Y%\")),var(ts(\"%E\")),var(ts(\"%5\"))])",
    "(core:[var(Major)],extra_core:[var(ts(\"%Y-%m-%d %H:%M:%S %z %Z %A %j %U %s %f %+\"))],build:[var(ts(\"%Q\"))])",
    "(core:[var(ts(\"YYYY \")),var(ts(\" 0M\")),var(ts(\"DD\\n\"))],extra_core:[],build:[var(ts(\"yyyy\")),var(ts(\"YYYYY\"))])",
    "(core:[var(ts(\"compact_datetime\")),var(ts(\"0W\")),var(ts(\"HH0mSS\"))],extra_core:[],build:[str(\"é\"),uint(18446744073709551615)])",
    "(core:[],extra_core:[],build:[])",
    "(core:[var(Minor),var(Major)],extra_core:[],build:[])",
    "(core:[var(Major),var(Major)],extra_core:[],build:[])",
    "(core:[var(Epoch)],extra_core:[var(Major)],build:[var(Post)])",
    "(core:[str(\"\"),uint(0),str(\"a.b\"),str(\"日本\")],extra_core:[str(\"-\")],build:[str(\"+\")])",
    "(core:[var(custom(\"\"))],extra_core:[],build:[var(custom(\"a..b\"))])",
    "(core:[uint(18446744073709551616)],extra_core:[],build:[])",
    "(core:[var(Major)],extra_core:[],build:[],precedence_order:[])",
    "(core:[var(Major)],extra_core:[],build:[],precedence_order:[Major,Major,Build])",
    "(core:[var(Major)]", "()", "", "[", "(core:1)", "(core:[var(Nope)],extra_core:[],build:[])", "(core:[var(Major)],extra_core:[],build:[],extra:1)",
    "(core:[var(LastBranch),var(LastCommitHash),var(LastCommitHashShort),var(LastTimestamp),var(BumpedTimestamp),var(Dirty),var(BumpedCommitHash)],extra_core:[],build:[])",
];

pub const CUSTOMS: &[&str] = &[
    "{\"a\":{\"b\":1}}", "{\"a\":{\"b\":[1,2.5,\"x\\\"y\",null,true]},\"k\":\"v\\n\\\\\"}", "{}", "[]", "null", "1", "\"s\"", "{\"a\":", "", "{\"é\":\"日本\"}",
    "{\"a\":1e400}", "{\"a\":-0.0}", "{\"a\":18446744073709551616}", "{\"a\":{\"b\":{\"c\":{\"d\":{\"e\":{}}}}}}", "{\"a.b\":1}", "{\"\":1}",
    "{\"a\":\"\\ud800\"}", "{\"a\":\"\\u0000\"}", "{'a':1}", "{\"major\":99}",
];

pub const BRANCH_RULES: &[&str] = &[
    "[(pattern:\"develop\",pre_release_label:beta,pre_release_num:Some(1),post_mode:commit),(pattern:\"*\",pre_release_label:alpha,pre_release_num:None,post_mode:commit)]",
    "[(pattern:\"*\",pre_release_label:rc,pre_release_num:None,post_mode:tag)]",
    "[(pattern:\"release/*\",pre_release_label:rc,pre_release_num:None,post_mode:tag)]",
    "[]", "[(pattern:\"\",pre_release_label:alpha,pre_release_num:None,post_mode:commit)]",
    "[(pattern:\"**\",pre_release_label:alpha,pre_release_num:Some(4294967295),post_mode:commit)]",
    "[(pattern:\"*\",pre_release_label:alpha,pre_release_num:Some(4294967296),post_mode:commit)]",
    "[(pattern:\"é*\",pre_release_label:beta,pre_release_num:Some(0),post_mode:tag)]",
    "[(pattern:\"*/*/*\",pre_release_label:beta,pre_release_num:None,post_mode:tag)]",
    "[(pattern:\"release/*\",pre_release_label:gamma,pre_release_num:None,post_mode:tag)]",
    "[(pattern:\"x\",pre_release_label:alpha,pre_release_num:None,post_mode:never)]",
    "[(pattern:\"x\"", "", "(", "[(pattern:\"[\",pre_release_label:alpha,pre_release_num:None,post_mode:commit)]",
    "[(pattern:\"release/*\",pre_release_label:rc,pre_release_num:None,post_mode:tag),(pattern:\"release/*\",pre_release_label:beta,pre_release_num:Some(2),post_mode:commit)]",
];

pub const INDEX_VALUES: &[&str] = &[
    "0=5", "1=2024", "~1=7", "0={{ major }}", "9=1", "~9=1", "-1=1", "0=", "=1", "0", "x=1", "0=é", "0=18446744073709551616", "18446744073709551616=1",
    "0={{", "1=a.b", "~0=0", "2=日本", "0=-1", "0==", "0=1=2", "~=1", "0={{ prefix(value='é', length=1) }}",
];

pub const LABELS: &[&str] = &["alpha", "beta", "rc", "none", "null", "a", "b", "gamma", "", "ALPHA", "{{ 'rc' }}", "{% if dirty %}alpha{% else %}beta{% endif %}", "{{", "é"];

pub const PATHS: &[&str] = &["", "/", "/nonexistent", "/etc/passwd", ".", "..", "/dev/null", "é", "/proc/self", "a\nb", "~", "$REPO", "$REPO/", "$REPO/.git", "$REPO/../repo"];

/// The whole adversarial value class of a flag (for systematic enumeration).
pub fn class_for(flag: &str) -> Vec<String> {
    let v = |x: &[&str]| x.iter().map(|s| s.to_string()).collect::<Vec<_>>();
    match flag {
        "source" => v(&["git", "stdin", "none", "bogus", ""]),
        "input-format" | "format" => v(&["auto", "semver", "pep440", "zerv", "bogus", "", "AUTO"]),
        "output-format" => v(&["semver", "pep440", "zerv", "bogus", ""]),
        "directory" => v(PATHS),
        "output-template" | "template" => [v(TEMPLATES), long_values()].concat(),
        "output-prefix" => [v(&["v", "", "release-", "é", "{{ major }}", "\n", "v v"]), long_texts()[7..10].to_vec()].concat(),
        "schema" => v(SCHEMAS),
        "schema-ron" => [v(SCHEMA_RONS), deep_values()].concat(),
        "tag-version" => [v(VERSIONS), long_values()].concat(),
        "bumped-branch" => [v(TEXTS), long_values()].concat(),
        "bumped-commit-hash" => [v(HASHES), long_texts()[..3].to_vec()].concat(),
        "custom" => [v(CUSTOMS), deep_values()].concat(),
        "core" | "extra-core" | "build" | "bump-core" | "bump-extra-core" | "bump-build" => v(INDEX_VALUES),
        "pre-release-label" | "bump-pre-release-label" => v(LABELS),
        "post-mode" => v(&["tag", "commit", "never", "", "TAG"]),
        "branch-rules" => [v(BRANCH_RULES), deep_values()].concat(),
        "hash-branch-len" => v(&["0", "1", "5", "9", "10", "11", "20", "4294967296", "-1", "x"]),
        "distance" | "major" | "minor" | "patch" | "epoch" | "post" | "dev" | "pre-release-num" | "bumped-timestamp" | "bump-major" | "bump-minor"
        | "bump-patch" | "bump-post" | "bump-dev" | "bump-pre-release-num" | "bump-epoch" => v(NUMS),
        _ => v(TEXTS),
    }
}

/// Every (flag, value) of every value class once, on top of a command that otherwise works:
/// the deterministic part of the argv workload (each adversarial value is certain to reach the
/// code behind its flag, which random combination of several bad flags does not guarantee).
pub fn systematic() -> Vec<Vec<String>> {
    let table = flags();
    let mut out: Vec<Vec<String>> = vec![];
    let s = |x: &[&str]| x.iter().map(|s| s.to_string()).collect::<Vec<String>>();
    for sub in ["version", "flow"] {
        let bases: Vec<Vec<String>> = vec![
            s(&[sub, "--source", "none", "--tag-version", "1.2.3", "--bumped-branch", "feature/x-1", "--bumped-commit-hash", "gabcdef1234567", "--distance", "3"]),
            s(&[sub, "--source", "none", "--tag-version", "v2.0.0-rc.4.post.5", "--bumped-branch", "release/7", "--dirty", "--bumped-timestamp", "1700000000"]),
        ];
        for f in &table[sub] {
            if f.value.is_none() || f.long == "help" {
                continue;
            }
            for val in class_for(&f.long) {
                // the second base only for the classes that read more of the object
                let nb = if matches!(f.long.as_str(), "output-template" | "schema" | "schema-ron" | "custom") { 2 } else { 1 };
                for b in bases.iter().take(nb) {
                    let mut a = b.clone();
                    if f.long == "tag-version" || f.long == "bumped-branch" || f.long == "bumped-commit-hash" || f.long == "distance" || f.long == "source" || f.long == "bumped-timestamp" {
                        // replace the base's own value instead of repeating the flag
                        if let Some(i) = a.iter().position(|x| x == &format!("--{}", f.long)) {
                            a.drain(i..i + 2);
                        }
                    }
                    a.push(format!("--{}", f.long));
                    a.push(val.clone());
                    out.push(a);
                }
            }
        }
        // switches, each alone
        for f in &table[sub] {
            if f.value.is_none() && f.long != "help" {
                let mut a = bases[0].clone();
                a.push(format!("--{}", f.long));
                out.push(a);
            }
        }
    }
    for ver in VERSIONS {
        for inf in ["auto", "semver", "pep440", "zerv"] {
            for outf in ["semver", "pep440", "zerv"] {
                out.push(s(&["render", ver, "--input-format", inf, "--output-format", outf]));
            }
        }
        for f in ["semver", "pep440", "zerv", "auto"] {
            out.push(s(&["check", ver, "--format", f]));
        }
        out.push(s(&["check", ver]));
    }
    // template functions x value x length (the value decides how long the natural result is)
    for i in 0..40 {
        let val = format!("v{i}");
        for len in [15usize, 16, 17, 19, 20, 21, 64] {
            out.push(s(&["render", "1.2.3", "--output-template", &format!("{{{{ hash(value='{val}', length={len}) }}}}")]));
            out.push(s(&["render", "1.2.3", "--output-template", &format!("{{{{ hash_int(value='{val}', length={len}) }}}}")]));
        }
        out.push(s(&["render", "1.2.3", "--output-template", &format!("{{{{ hash_int(value='{val}', length=22, allow_leading_zero=true) }}}}")]));
    }
    for val in ["é", "日本語", "a\u{0301}b", "🚀🚀", "ab", ""] {
        for len in 0..7usize {
            out.push(s(&["render", "1.2.3", "--output-template", &format!("{{{{ prefix(value='{val}', length={len}) }}}}")]));
            out.push(s(&["render", "1.2.3", "--output-template", &format!("{{{{ sanitize(value='{val}', max_length={len}) }}}}")]));
            out.push(s(&["render", "1.2.3", "--output-template", &format!("{{{{ sanitize(value='x/{val}', preset='pep440', max_length={len}) }}}}")]));
        }
    }
    for lv in long_values() {
        out.push(s(&["check", &lv]));
        out.push(s(&["check", &lv, "--format", "semver"]));
        out.push(s(&["check", &lv, "--format", "pep440"]));
        for inf in ["auto", "semver", "pep440", "zerv"] {
            out.push(s(&["render", &lv, "--input-format", inf]));
        }
    }
    for t in TEMPLATES {
        out.push(s(&["render", "1.2.3-alpha.4+b.5", "--output-template", t]));
        out.push(s(&["render", "7!1.2rc3.post4.dev5+local.6", "--input-format", "pep440", "--output-template", t]));
    }
    out
}

/// long values (plain, and with multi-byte characters at every byte offset class): buffers,
/// truncation of diagnostics and fixed-size assumptions only show beyond a few hundred bytes
pub fn long_values() -> Vec<String> {
    [long_texts(), deep_values()].concat()
}

/// deep nesting: recursive-descent parsers behind templates, RON and JSON
pub fn deep_values() -> Vec<String> {
    vec![
        format!("{{{{ {}1{} }}}}", "(".repeat(3000), ")".repeat(3000)),
        format!("{}x{}", "{% if true %}".repeat(3000), "{% endif %}".repeat(3000)),
        format!("{}{}", "[".repeat(5000), "]".repeat(5000)),
        format!("{}1{}", "{\"a\":".repeat(3000), "}".repeat(3000)),
        format!("{}{}", "(".repeat(5000), ")".repeat(5000)),
    ]
}

pub fn long_texts() -> Vec<String> {
    let mut v = vec![];
    for n in [255usize, 256, 399, 400, 401, 1000, 5000] {
        v.push("a".repeat(n));
    }
    for (pre, unit, n) in [("", "é", 300usize), ("x", "é", 300), ("1.0.0-", "é", 600), ("1.2.3+build.", "版", 200), ("", "🚀", 150), ("ab", "日本", 250), ("v1.0.0-", "a1.", 400)] {
        v.push(format!("{pre}{}", unit.repeat(n)));
    }
    v
}

/// A value for one flag, by flag name.
pub fn value_for(flag: &str, r: &mut Rng, adversarial: bool) -> String {
    let p = |v: &[&str], r: &mut Rng| r.pick(v).to_string();
    let safe_num = |r: &mut Rng| r.pick(&["0", "1", "2", "5", "10", "255"]).to_string();
    match flag {
        "source" => if adversarial { p(&["git", "stdin", "none", "bogus", ""], r) } else { p(&["none"], r) },
        "input-format" | "format" => if adversarial { p(&["auto", "semver", "pep440", "zerv", "bogus", "", "AUTO"], r) } else { p(&["auto", "semver", "pep440"], r) },
        "output-format" => if adversarial { p(&["semver", "pep440", "zerv", "bogus", ""], r) } else { p(&["semver", "pep440", "zerv"], r) },
        "directory" => p(PATHS, r),
        "output-template" | "template" => p(TEMPLATES, r),
        "output-prefix" => p(&["v", "", "release-", "é", "{{ major }}", "\n", "v v"], r),
        "schema" => if adversarial { p(SCHEMAS, r) } else { p(&SCHEMAS[..21], r) },
        "schema-ron" => p(SCHEMA_RONS, r),
        "tag-version" => p(VERSIONS, r),
        "bumped-branch" => p(TEXTS, r),
        "bumped-commit-hash" => p(HASHES, r),
        "custom" => p(CUSTOMS, r),
        "core" | "extra-core" | "build" | "bump-core" | "bump-extra-core" | "bump-build" => p(INDEX_VALUES, r),
        "pre-release-label" | "bump-pre-release-label" => p(LABELS, r),
        "post-mode" => p(&["tag", "commit", "never", "", "TAG"], r),
        "branch-rules" => p(BRANCH_RULES, r),
        "hash-branch-len" => if adversarial { p(&["0", "1", "5", "9", "10", "11", "20", "4294967296", "-1", "x"], r) } else { p(&["1", "3", "5", "7", "9"], r) },
        "distance" | "major" | "minor" | "patch" | "epoch" | "post" | "dev" | "pre-release-num" | "bumped-timestamp" | "bump-major" | "bump-minor"
        | "bump-patch" | "bump-post" | "bump-dev" | "bump-pre-release-num" | "bump-epoch" => {
            if adversarial { p(NUMS, r) } else { safe_num(r) }
        }
        _ => if adversarial { p(TEXTS, r) } else { "x".to_string() },
    }
}

/// Random argument vector for `sub` from the discovered flag table.
pub fn gen_argv(sub: &str, r: &mut Rng, adversarial: bool, max_flags: u64) -> Vec<String> {
    let table = flags();
    let fl = &table[sub];
    let mut argv = vec![sub.to_string()];
    let n = r.geometric(0, max_flags, 3);
    let mut positional_done = false;
    if sub == "check" || sub == "render" {
        if r.chance(19, 20) {
            argv.push(r.pick(VERSIONS).to_string());
            positional_done = true;
        }
    }
    for _ in 0..n {
        let f = r.pick(fl);
        if f.long == "help" || f.long == "llm-help" {
            if !r.chance(1, 40) {
                continue;
            }
        }
        match &f.value {
            None => argv.push(format!("--{}", f.long)),
            Some(_) => {
                let val = value_for(&f.long, r, adversarial);
                if f.optional_value && r.chance(1, 4) {
                    argv.push(format!("--{}", f.long));
                } else if r.chance(1, 3) || f.optional_value {
                    argv.push(format!("--{}={}", f.long, val));
                } else {
                    argv.push(format!("--{}", f.long));
                    argv.push(val);
                }
            }
        }
    }
    let _ = positional_done;
    argv
}
