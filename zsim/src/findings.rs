//! Known findings: genuine defects of zerv that are recorded rather than repaired.
//! The file is committed under /verif and never written at run time.  An entry identifies the
//! failing input / call site narrowly (clause, field, and substrings of the violation and of
//! the minimised scenario) so that any other violation of the same property still alarms.

use crate::sim::Violation;
use serde::Deserialize;

#[derive(Deserialize, Debug, Clone)]
pub struct Finding {
    pub id: String,
    pub property: String,
    /// exact clause; a prefix when it ends with `*`; a substring when it starts and ends with `*`
    pub clause: String,
    /// exact field, or a prefix when it ends with `*`; empty = any
    #[serde(default)]
    pub field: String,
    /// every string must occur in expected + actual + detail of the violation
    #[serde(default)]
    pub violation_contains: Vec<String>,
    /// every string must occur in the JSON of the (minimised) scenario
    #[serde(default)]
    pub scenario_contains: Vec<String>,
    pub description: String,
}

#[derive(Deserialize, Debug, Clone, Default)]
pub struct KnownFile {
    #[serde(default)]
    pub findings: Vec<Finding>,
    /// `fixed:` records – documentation only, they match nothing
    #[serde(default)]
    pub fixed: Vec<serde_json::Value>,
}

pub fn load(path: &std::path::Path) -> Result<KnownFile, String> {
    match std::fs::read_to_string(path) {
        Ok(s) => serde_json::from_str(&s).map_err(|e| format!("{path:?}: {e}")),
        Err(_) => Ok(KnownFile::default()),
    }
}

fn pat(p: &str, s: &str) -> bool {
    if p.is_empty() {
        true
    } else if p.len() >= 2 && p.starts_with('*') && p.ends_with('*') {
        s.contains(&p[1..p.len() - 1])
    } else if let Some(pre) = p.strip_suffix('*') {
        s.starts_with(pre)
    } else {
        p == s
    }
}

pub fn matching<'a>(k: &'a KnownFile, v: &Violation, scenario: &serde_json::Value) -> Option<&'a Finding> {
    let hay = format!("{}\n{}\n{}", v.expected, v.actual, v.detail);
    let sc = scenario.to_string();
    k.findings.iter().find(|f| {
        f.property == v.property
            && pat(&f.clause, &v.clause)
            && pat(&f.field, &v.field)
            && f.violation_contains.iter().all(|s| hay.contains(s))
            && f.scenario_contains.iter().all(|s| sc.contains(s))
    })
}
