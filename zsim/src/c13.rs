//! C13 – zerv fails cleanly: never panics, never prints a result on failure.
//! Fault enumeration over the process boundary: every git invocation of every scenario ×
//! every proxy fault kind, storage corruption, stdin / cwd / PATH faults, interleaved
//! mutations, step budget – with a seeded adversarial argv workload.

use crate::argvgen;
use crate::c02;
use crate::proc::{Outcome, Status, Stdin};
use crate::rng::Rng;
use crate::sim::*;
use crate::world::*;
use serde::{Deserialize, Serialize};
use std::ffi::OsString;
use std::path::{Path, PathBuf};

pub const PROP: &str = "C13";

pub const FAULT_KINDS: &[&str] = &[
    "exit128_notrepo", "exit128_ambig_head", "exit128_corrupt", "exit128_perm", "exit128_badobj", "exit128_lock", "exit128_shallow", "exit128_auth",
    "exit128_network", "exit128_dubious", "exit129_usage", "exit128_unknown_rev", "exit1_stdout_and_stderr", "exit1_empty_stderr",
    "exit255_nonutf8_stderr", "exit128_big_stderr", "exit0_stderr_fatal", "ok_empty", "ok_nonnumeric", "ok_negative", "ok_huge",
    "ok_nonutf8", "ok_nul", "ok_bigline", "ok_float", "ok_u32max_plus", "torn_ok", "torn_fail", "junk_before", "junk_after", "sigkill",
    "sigsegv", "valid_crlf", "valid_bom", "valid_dup_lines", "valid_lead_space", "valid_trailing_spaces", "valid_no_final_newline",
];

pub const WHOLE_KINDS: &[&str] = &["missing", "notexec", "dir", "enoexec", "budget3", "all_fail", "all_empty"];

pub const STORAGE_TARGETS: &[&str] = &["HEAD", "index", "packed-refs", "loose-ref", "head-object", "config", "dotgit-file", "shallow", "objects-dir"];
pub const STORAGE_HOWS: &[&str] = &["empty", "half", "bitflip", "delete", "garbage"];

pub const MUTATIONS: &[&str] = &["commit", "tag-higher", "delete-tags", "detach", "create-file", "rm-dotgit", "checkout-other", "gc-prune"];

pub const STEP_BUDGET: usize = 400;

#[derive(Serialize, Deserialize, Clone, Debug, PartialEq)]
pub enum StdinSpec {
    Null,
    Text(String),
    Bytes(Vec<u8>),
    Closed,
    Dir,
    Big(usize),
}

#[derive(Serialize, Deserialize, Clone, Debug)]
pub struct Cmd {
    /// `$REPO` is replaced by the repository path
    pub argv: Vec<String>,
    pub stdin: StdinSpec,
    /// "/", "$REPO", "$REPO/sub", "deleted"
    pub cwd: String,
}

#[derive(Serialize, Deserialize, Clone, Debug)]
pub struct Scenario {
    pub mode: String,
    pub actors: Vec<Actor>,
    pub ops: Vec<Op>,
    /// degenerate world instead of ops: "", "no-git", "git-file", "empty-repo", "weird-refs"
    pub degenerate: String,
    pub commands: Vec<Cmd>,
    pub sim_now: i64,
    /// restrict the enumeration to one case id (set by the driver for minimisation / replay)
    #[serde(default)]
    pub only: Option<String>,
    pub sample_seed: u64,
    /// (i, n): this run executes the enumerated cases whose ordinal is congruent to i modulo n
    /// (the fault-free traced run is executed by every shard)
    #[serde(default)]
    pub shard: Option<(u64, u64)>,
}

// ------------------------------------------------------------------------------------------
// generation

fn git_cmd(r: &mut Rng) -> Cmd {
    let sub = *r.pick(&["version", "flow"]);
    let mut argv: Vec<String> = vec![sub.to_string()];
    let cwd = match r.below(4) {
        0 => "$REPO".to_string(),
        1 => "$REPO/sub".to_string(),
        _ => {
            argv.push("-C".into());
            argv.push("$REPO".into());
            "/".to_string()
        }
    };
    // a few benign flags so that different pipelines run
    for _ in 0..r.below(4) {
        match r.below(9) {
            0 => argv.extend(["--output-format".into(), r.pick(&["semver", "pep440", "zerv"]).to_string()]),
            1 => argv.extend(["--schema".into(), r.pick(&argvgen::SCHEMAS[..21]).to_string()]),
            2 => argv.extend(["--input-format".into(), r.pick(&["auto", "semver", "pep440"]).to_string()]),
            3 => argv.push("-v".into()),
            4 => argv.extend(["--output-prefix".into(), "v".into()]),
            5 if sub == "version" => argv.push(r.pick(&["--bump-patch", "--bump-minor", "--bump-major", "--no-bump-context", "--dirty", "--clean"]).to_string()),
            6 => argv.extend(["--output-template".into(), r.pick(&["{{ semver }}", "{{ bumped_branch }}-{{ distance }}", "{{ pep440 }}+{{ bumped_commit_hash_short }}"]).to_string()]),
            7 if sub == "flow" => argv.extend(["--post-mode".into(), r.pick(&["tag", "commit"]).to_string()]),
            8 => argv.extend(["--source".into(), "git".into()]),
            _ => {}
        }
    }
    Cmd { argv, stdin: StdinSpec::Null, cwd }
}

pub fn stdin_docs() -> Vec<String> {
    let base = "(\n    schema: (\n        core: [\n            var(Major),\n            var(Minor),\n            var(Patch),\n        ],\n        extra_core: [\n            var(Epoch),\n            var(PreRelease),\n            var(Post),\n            var(Dev),\n        ],\n        build: [\n            var(BumpedBranch),\n            var(Distance),\n            var(BumpedCommitHashShort),\n        ],\n    ),\n    vars: (\n        major: Some(1),\n        minor: Some(2),\n        patch: Some(3),\n        epoch: None,\n        pre_release: Some((\n            label: Alpha,\n            number: Some(4),\n        )),\n        post: Some(5),\n        dev: None,\n        distance: Some(6),\n        dirty: Some(true),\n        bumped_branch: Some(\"feature/ünï\"),\n        bumped_commit_hash: Some(\"gé1b2c3d4e5f6\"),\n        bumped_timestamp: Some(1700000000),\n        last_branch: None,\n        last_commit_hash: Some(\"g0123456789abcdef\"),\n        last_timestamp: Some(1600000000),\n        last_tag_version: Some(\"v1.2.2\"),\n        custom: {\"a\": {\"b\": 1}},\n    ),\n)\n";
    let mut v = vec![base.to_string()];
    v.push(base.replace("Some(\"gé1b2c3d4e5f6\")", "Some(\"日本語日本語\")"));
    v.push(base.replace("major: Some(1)", "major: Some(18446744073709551615)"));
    v.push(base.replace("post: Some(5)", "post: Some(18446744073709551615)"));
    v.push(base.replace("number: Some(4)", "number: Some(18446744073709551615)"));
    v.push(base.replace("distance: Some(6)", "distance: Some(18446744073709551615)"));
    v.push(base.replace("bumped_timestamp: Some(1700000000)", "bumped_timestamp: Some(18446744073709551615)"));
    v.push(base.replace("bumped_timestamp: Some(1700000000)", "bumped_timestamp: Some(253402300800)"));
    v.push(base.replace("var(Major),\n            var(Minor),\n            var(Patch),", "var(ts(\"YYYY\")),\n            var(ts(\"0M\")),\n            var(ts(\"compact_datetime\")),"));
    v.push(base.replace("var(BumpedBranch),", "var(custom(\"a.b\")),\n            str(\"é\"),\n            uint(18446744073709551615),"));
    v.push(base.replace("major: Some(1)", "major: None"));
    v.push(base.replace("Some(\"v1.2.2\")", "Some(\"\")"));
    v.push(base.replace("Some(\"feature/ünï\")", "Some(\"\")"));
    v.push(base[..base.len() / 2].to_string());
    v.push(String::new());
    v.push("()".into());
    v.push("(schema: (core: [], extra_core: [], build: []), vars: ())".into());
    v.push("not ron at all {{{".into());
    v.push("1.2.3".into());
    v
}

fn argv_cmd(r: &mut Rng) -> Cmd {
    let sub = *r.pick(&["version", "version", "flow", "flow", "check", "render", "render"]);
    let mut argv = argvgen::gen_argv(sub, r, true, 8);
    let mut stdin = StdinSpec::Null;
    if sub == "version" || sub == "flow" {
        // make the pipeline reachable: most of the time give it a source that works offline
        match r.below(10) {
            0..=5 => {
                argv.extend(["--source".into(), "none".into()]);
                if r.chance(3, 4) {
                    argv.extend(["--tag-version".into(), r.pick(&["1.2.3", "v0.9.9-rc.2", "1.0.0a1", "2!1.0.post3", "1.2.3-alpha.1.post.4.dev.5+b.7"]).to_string()]);
                }
            }
            6..=8 => {
                argv.extend(["--source".into(), "stdin".into()]);
                let docs = stdin_docs();
                stdin = StdinSpec::Text(r.pick(&docs).clone());
            }
            _ => {}
        }
    } else if r.chance(1, 6) {
        let docs = stdin_docs();
        stdin = StdinSpec::Text(r.pick(&docs).clone());
    }
    Cmd { argv, stdin, cwd: "/".into() }
}

pub const SYSTEMATIC_GROUPS: u64 = 8;

pub fn generate(r: &mut Rng, tier: Tier, group: u64) -> serde_json::Value {
    if group < SYSTEMATIC_GROUPS {
        // the deterministic part of the argv workload: slice `group` of the systematic list
        let all = argvgen::systematic();
        let commands: Vec<Cmd> = all
            .into_iter()
            .enumerate()
            .filter(|(i, _)| *i as u64 % SYSTEMATIC_GROUPS == group)
            .map(|(_, argv)| Cmd { argv, stdin: StdinSpec::Null, cwd: "/".into() })
            .collect();
        let sc = Scenario {
            mode: "argv".into(),
            actors: vec![Actor { clock: 1_600_000_000, tz: "+0000".into() }],
            ops: vec![],
            degenerate: "no-git".into(),
            commands,
            sim_now: 1_800_000_000,
            only: None,
            sample_seed: r.next(),
            shard: None,
        };
        return serde_json::to_value(sc).unwrap();
    }
    // the mode is stratified over the scenario index (not drawn), so that a small batch such as the
    // quick tier always contains every mode in fixed proportions
    let slot = (group - SYSTEMATIC_GROUPS.min(group)) % 10;
    let mode = match slot {
        0 | 2 | 4 | 7 => "gitfaults",
        1 | 5 | 8 => "argv",
        3 => "storage",
        6 => "misc",
        _ => if tier == Tier::Thorough { "mutate" } else { "gitfaults" },
    };
    let (actors, mut ops, _) = c02::gen_history_with(r, 5, 12, false);
    let mut degenerate = String::new();
    let mut commands = vec![];
    match mode {
        "gitfaults" | "mutate" => {
            if slot == 7 {
                degenerate = r.pick(&["no-git", "git-file", "empty-repo", "weird-refs"]).to_string();
            }
            // every other healthy world ends on a branch whose name is long and multi-byte, so that git's
            // own (valid) answers are long, non-ASCII text
            if degenerate.is_empty() && group % 2 == 0 {
                ops.push(Op::Commit { actor: 0, dt: 1, adt: 0, with_file: false });
                ops.push(Op::Branch { name: crate::names::long_multibyte_branch(r), from: None });
                ops.push(Op::CheckoutNewest);
            }
            commands.push(git_cmd(r));
            if r.chance(1, 3) {
                commands.push(git_cmd(r));
            }
        }
        "argv" => {
            if r.chance(1, 2) {
                ops.clear();
                degenerate = "no-git".into();
            }
            let n = 30 + r.below(30);
            for _ in 0..n {
                commands.push(argv_cmd(r));
            }
        }
        "storage" => {
            // storage faults need a repository with something in it
            ops = vec![
                Op::Commit { actor: 0, dt: 10, adt: 0, with_file: true },
                Op::Tag { name: "v1.0.0".into(), kind: *r.pick(&[TagKind::Light, TagKind::Annot]), target: None, actor: 0, dt: 0 },
                Op::Branch { name: "feature/x".into(), from: None },
                Op::Commit { actor: 0, dt: 10, adt: 0, with_file: r.chance(1, 2) },
            ];
            for _ in 0..r.below(4) {
                ops.push(Op::Commit { actor: 0, dt: 10, adt: 0, with_file: r.chance(1, 2) });
            }
            if r.chance(1, 3) {
                ops.push(Op::Dirty { kind: DirtyKind::Modified });
            }
            // plain commands here: without template / prefix the shape of a correct stdout is known
            // (one line, or one RON document), so anything extra on stdout is visible
            for sub in ["version", "flow"] {
                let mut argv: Vec<String> = vec![sub.to_string(), "-C".into(), "$REPO".into()];
                if r.chance(1, 2) {
                    argv.extend(["--output-format".into(), r.pick(&["semver", "pep440", "zerv"]).to_string()]);
                }
                commands.push(Cmd { argv, stdin: StdinSpec::Null, cwd: "/".into() });
            }
        }
        _ => {
            commands.push(git_cmd(r));
            commands.push(argv_cmd(r));
        }
    }
    let last = actors.iter().map(|a| a.clock).max().unwrap_or(0);
    let sim_now = match r.below(8) {
        0 => 0,
        1 => 2_147_483_647,
        2 => 2_147_483_648,
        3 => 4_294_967_295,
        4 => last - 5,
        _ => (last + r.range(10, 100_000_000)).min(4_294_967_295),
    };
    let sc = Scenario { mode: mode.into(), actors, ops, degenerate, commands, sim_now, only: None, sample_seed: r.next(), shard: None };
    serde_json::to_value(sc).unwrap()
}

// ------------------------------------------------------------------------------------------
// judging one child

fn arg_value<'a>(argv: &'a [String], names: &[&str]) -> Option<&'a str> {
    let mut val = None;
    let mut i = 0;
    while i < argv.len() {
        for n in names {
            if argv[i] == *n {
                if let Some(v) = argv.get(i + 1) {
                    val = Some(v.as_str());
                }
            } else if let Some(rest) = argv[i].strip_prefix(&format!("{n}=")) {
                val = Some(rest);
            }
        }
        i += 1;
    }
    val
}

fn expects_single_line(argv: &[String]) -> bool {
    let sub = argv.first().map(|s| s.as_str()).unwrap_or("");
    if !matches!(sub, "version" | "flow" | "render") {
        return false;
    }
    if argv.iter().any(|a| a == "-h" || a == "--help" || a == "--llm-help" || a == "-V" || a == "--version") {
        return false;
    }
    if arg_value(argv, &["--output-template", "--template"]).is_some() {
        return false;
    }
    if argv.iter().any(|a| a.starts_with("--output-prefix")) {
        return false; // a prefix may itself contain a newline
    }
    let fmt = arg_value(argv, &["--output-format"]).unwrap_or("semver");
    matches!(fmt, "semver" | "pep440")
}

fn is_help(argv: &[String]) -> bool {
    argv.iter().any(|a| a == "-h" || a == "--help" || a == "--llm-help" || a == "-V" || a == "--version")
}

fn expects_ron(argv: &[String]) -> bool {
    let sub = argv.first().map(|s| s.as_str()).unwrap_or("");
    matches!(sub, "version" | "flow" | "render")
        && !is_help(argv)
        && arg_value(argv, &["--output-template", "--template"]).is_none()
        && !argv.iter().any(|a| a.starts_with("--output-prefix"))
        && arg_value(argv, &["--output-format"]) == Some("zerv")
}

/// the template, when the command renders one whose values cannot contain a newline
/// (only for the git-sourced commands the engine builds itself: overrides can inject one)
fn plain_template(argv: &[String]) -> Option<&str> {
    let sub = argv.first().map(|s| s.as_str()).unwrap_or("");
    if !matches!(sub, "version" | "flow") || is_help(argv) {
        return None;
    }
    if argv.iter().any(|a| a.starts_with("--output-prefix") || a.starts_with("--bumped-") || a.starts_with("--custom") || a.starts_with("--tag-version") || a.starts_with("--source")) {
        return None;
    }
    arg_value(argv, &["--output-template"]).filter(|t| ["{{ semver }}", "{{ bumped_branch }}-{{ distance }}", "{{ pep440 }}+{{ bumped_commit_hash_short }}"].contains(t))
}

/// The per-child oracle of C13.
pub fn judge_child(o: &Outcome, argv: &[String], case: &str, trace_len: usize) -> Option<Violation> {
    let full_err = o.err_str();
    let mk = |clause: &str, exp: &str, act: String| {
        // one panic site = one signature, however it was reached
        let field = if clause == "no-panic" {
            match full_err.find("panicked at ") {
                Some(i) => {
                    let loc: String = full_err[i + 12..].chars().take_while(|c| !c.is_whitespace()).collect();
                    format!("panic@{}", loc.trim_end_matches(':'))
                }
                None => "panic".to_string(),
            }
        } else {
            case_class(case)
        };
        let mut v = Violation::new(PROP, clause, &field, exp, act, format!("case={case} argv={argv:?}"));
        v.narrow = Some(case.split('~').next().unwrap_or(case).to_string());
        Some(v)
    };
    if o.watchdog {
        return mk("liveness", "terminates", "killed by the watchdog".into());
    }
    if trace_len >= STEP_BUDGET {
        return mk("liveness", "bounded number of git invocations", format!("{trace_len} invocations (step budget {STEP_BUDGET})"));
    }
    let err = o.err_str();
    match &o.status {
        Status::SpawnError(e) => {
            // the harness could not start the child (e.g. NUL in argv): not an observation
            let _ = e;
            return None;
        }
        Status::Signal(s) => {
            // keep the line that says why (e.g. "has overflowed its stack") even behind a long log prefix
            let why: Vec<&str> = err.lines().filter(|l| l.contains("overflowed its stack") || l.contains("memory allocation") || l.contains("fatal runtime error")).collect();
            let why = why.join(" / ");
            return mk("no-abort", "exit status", format!("killed by signal {s}; {why}; stderr={}", short(&err, 300)));
        }
        Status::Exit(101) => return mk("no-panic", "no panic", format!("exit 101; stderr={}", short(&panic_excerpt(&err), 400))),
        Status::Exit(_) => {}
    }
    if err.contains("panicked at") || err.contains("RUST_BACKTRACE") {
        return mk("no-panic", "no panic", format!("{} stderr={}", o.status_str(), short(&panic_excerpt(&err), 400)));
    }
    if o.ok() {
        let s = o.out_str();
        if expects_single_line(argv) {
            let one_line = s.ends_with('\n') && s.matches('\n').count() == 1 && s.len() > 1;
            if !one_line {
                return mk("result-only", "exactly one line on stdout", format!("{:?}", short(&s, 300)));
            }
        } else if expects_ron(argv) {
            // the whole of stdout must be one Zerv RON document
            if let Err(e) = crate::zron::parse(&s) {
                return mk("result-only", "stdout is exactly one Zerv RON document", format!("{e}; stdout={:?}", short(&s, 300)));
            }
        } else if let Some(t) = plain_template(argv).filter(|_| !case.contains(":junk_") && !case.contains(":valid_dup_lines") && !case.contains(":valid_crlf")) {
            // (a junk-line fault makes git itself hand over a multi-line value: degraded success)
            // a template without newlines renders to exactly one line (git-derived values cannot contain one)
            let lines = s.matches('\n').count();
            if lines != t.matches('\n').count() + 1 {
                return mk("result-only", "as many lines as the template has", format!("{:?}", short(&s, 300)));
            }
        }
        None
    } else {
        if !o.stdout.is_empty() {
            return mk("failure-silent-stdout", "empty stdout on failure", format!("{} stdout={:?}", o.status_str(), short(&o.out_str(), 300)));
        }
        if o.stderr.is_empty() {
            return mk("failure-diagnostic", "a diagnostic on stderr", format!("{} with empty stderr", o.status_str()));
        }
        None
    }
}

fn panic_excerpt(err: &str) -> String {
    match err.find("panicked at ") {
        Some(i) => err[i..].to_string(),
        None => err.to_string(),
    }
}

/// the part of a case id that names the fault class (kept in the violation signature)
fn case_class(case: &str) -> String {
    // c<i>:git:<k>:<kind> -> git:<kind>; c<i>:storage:<target>:<how> -> storage:<target>:<how>; c<i>:base -> base
    let case = case.split('~').next().unwrap_or(case);
    let parts: Vec<&str> = case.split(':').collect();
    match parts.get(1).copied() {
        Some("git") => format!("git:{}", parts.get(3).copied().unwrap_or("")),
        Some(_) => parts[1..].join(":"),
        None => case.to_string(),
    }
}

// ------------------------------------------------------------------------------------------
// execution

fn subst(s: &str, repo: &str) -> String {
    s.replace("$REPO", repo)
}

fn stdin_of(s: &StdinSpec) -> Stdin {
    match s {
        StdinSpec::Null => Stdin::Null,
        StdinSpec::Text(t) => Stdin::Pipe { data: t.as_bytes().to_vec(), chunks: vec![7, 1, 64] },
        StdinSpec::Bytes(b) => Stdin::Pipe { data: b.clone(), chunks: vec![3] },
        StdinSpec::Closed => Stdin::Closed,
        StdinSpec::Dir => Stdin::Dir,
        StdinSpec::Big(n) => Stdin::Pipe { data: vec![b'x'; *n], chunks: vec![65536] },
    }
}

fn make_call(rd: &RunDir, cmd: &Cmd, repo: &Path, sim_now: i64, case_dir: &str) -> ZervCall {
    let repo_s = repo.to_string_lossy().to_string();
    let argv: Vec<OsString> = cmd.argv.iter().map(|a| OsString::from(subst(a, &repo_s))).collect();
    let mut call = ZervCall {
        args: argv,
        cwd: PathBuf::from("/"),
        sim_now,
        env: vec![],
        unset: vec![],
        stdin: stdin_of(&cmd.stdin),
        path: None,
        rm_cwd: false,
        stdout: crate::proc::Stdout::Capture,
        stderr: crate::proc::Stdout::Capture,
        exe: None,
        umask: None,
        cpus: None,
    };
    match cmd.cwd.as_str() {
        "deleted" => {
            let d = rd.dir.join(format!("gone-{case_dir}"));
            let _ = std::fs::create_dir_all(&d);
            call.cwd = d;
            call.rm_cwd = true;
        }
        other => {
            let p = PathBuf::from(subst(other, &repo_s));
            if !p.exists() {
                let _ = std::fs::create_dir_all(&p);
            }
            call.cwd = if p.is_dir() { p } else { PathBuf::from("/") };
        }
    }
    call
}

fn copy_dir(src: &Path, dst: &Path) -> std::io::Result<()> {
    std::fs::create_dir_all(dst)?;
    for e in std::fs::read_dir(src)? {
        let e = e?;
        let ty = e.file_type()?;
        let to = dst.join(e.file_name());
        if ty.is_dir() {
            copy_dir(&e.path(), &to)?;
        } else if ty.is_file() {
            std::fs::copy(e.path(), &to)?;
        }
    }
    Ok(())
}

fn build_degenerate(rd: &RunDir, kind: &str) -> HResult<PathBuf> {
    let repo = rd.repo();
    std::fs::create_dir_all(&repo).map_err(|e| HarnessError(format!("mkdir repo: {e}")))?;
    let io = |r: std::io::Result<()>| r.map_err(|e| HarnessError(format!("degenerate {kind}: {e}")));
    match kind {
        "no-git" => {}
        "git-file" => io(std::fs::write(repo.join(".git"), "gitdir: /nonexistent/zsim\n"))?,
        "empty-repo" | "weird-refs" => {
            let actors = vec![Actor { clock: 1_500_000_000, tz: "+0000".into() }];
            let mut w = World::create(&repo, &rd.home(), actors)?;
            if kind == "weird-refs" {
                w.apply(&Op::Commit { actor: 0, dt: 1, adt: 0, with_file: false })?;
                let h = w.commits[0].hash.clone();
                // ref names that are not valid UTF-8, and one that is 2 KB long (git may refuse)
                use std::os::unix::ffi::OsStrExt;
                let tagdir = repo.join(".git/refs/tags");
                let _ = std::fs::create_dir_all(&tagdir);
                let bad = std::ffi::OsStr::from_bytes(b"v1.0.0-\xff\xfe");
                let _ = std::fs::write(tagdir.join(bad), format!("{h}\n"));
                let _ = std::fs::write(tagdir.join("v0.9.0"), format!("{h}\n"));
                let headsdir = repo.join(".git/refs/heads");
                let badb = std::ffi::OsStr::from_bytes(b"br-\xc3\x28");
                let _ = std::fs::write(headsdir.join(badb), format!("{h}\n"));
                let _ = std::fs::write(repo.join(".git/HEAD"), b"ref: refs/heads/br-\xc3\x28\n");
                let long: String = std::iter::repeat('x').take(240).collect();
                let _ = std::fs::write(tagdir.join(format!("v2.0.0-{long}")), format!("{h}\n"));
            }
        }
        _ => {}
    }
    Ok(repo)
}

struct Runner<'a> {
    ctx: &'a Ctx,
    rd: &'a RunDir,
    sc: &'a Scenario,
    stats: &'a mut Stats,
    viol: Vec<Violation>,
    ordinal: u64,
}

impl<'a> Runner<'a> {
    /// is this enumerated case executed by this run?  (`only` wins over sharding)
    fn wanted(&mut self, case: &str) -> bool {
        match &self.sc.only {
            Some(o) => o == case,
            None => {
                if case.ends_with(":base") {
                    return true;
                }
                self.ordinal += 1;
                match self.sc.shard {
                    Some((i, n)) if n > 1 => self.ordinal % n == i,
                    _ => true,
                }
            }
        }
    }

    /// seeded 1-in-n choice that depends only on the case identity (never on execution order)
    fn pick(&self, case: &str, n: u64) -> bool {
        (crate::rng::fnv(case) ^ self.sc.sample_seed) % n == 0
    }

    /// run one child under `plan`, judge it, record events and statistics
    fn child(&mut self, cmd: &Cmd, repo: &Path, case: &str, plan: &str, path: Option<String>, extra_env: &[(String, String)], argv_extra_front: &[&str]) -> (Outcome, usize) {
        let mut cmd2 = cmd.clone();
        if !argv_extra_front.is_empty() && !cmd2.argv.is_empty() {
            for (i, a) in argv_extra_front.iter().enumerate() {
                cmd2.argv.insert(1 + i, a.to_string());
            }
        }
        self.rd.set_plan(&format!("budget {STEP_BUDGET}\n{plan}"));
        self.rd.reset_trace();
        let mut call = make_call(self.rd, &cmd2, repo, self.sc.sim_now, &case.replace([':', '/'], "_"));
        call.path = path;
        call.env = extra_env.to_vec();
        let o = run_zerv(self.ctx, self.rd, &call, self.stats);
        let tr = self.rd.trace();
        self.stats.bump("children");
        self.stats.event(format!(
            "case {case} argv={:?} -> {} out={} err={} trace={}",
            cmd2.argv,
            o.status_str(),
            short(&norm(self.ctx, &o.out_str()), 300),
            short(&norm(self.ctx, &o.err_str()), 300),
            tr.iter().map(|(k, d, _)| format!("{k}:{d}")).collect::<Vec<_>>().join(",")
        ));
        if let Some(v) = judge_child(&o, &cmd2.argv, case, tr.len()) {
            self.viol.push(v);
        }
        let class = match &o.status {
            Status::Exit(0) => "ok",
            Status::Exit(_) => "fail",
            _ => "abnormal",
        };
        self.stats.bump(&format!("outcome.{class}"));
        (o, tr.len())
    }

    /// logs never reach stdout: same stdout and status with -v and with RUST_LOG=trace
    fn verbosity_identity(&mut self, cmd: &Cmd, repo: &Path, case: &str, plan: &str, base: &Outcome) {
        if cmd.argv.iter().any(|a| a == "-h" || a == "--help" || a == "--llm-help") {
            return;
        }
        let has_v = cmd.argv.iter().any(|a| a == "-v" || a == "--verbose");
        let e = |k: &str, v: &str| vec![(k.to_string(), v.to_string())];
        let variants: Vec<(&str, Vec<(String, String)>, Vec<&str>)> = vec![
            ("rust_log", e("RUST_LOG", "trace"), vec![]),
            ("verbose", vec![], if has_v { vec![] } else { vec!["-v"] }),
            // logging switched off or pointed elsewhere: a failure must still carry its diagnostic
            ("log_off", e("RUST_LOG", "off"), vec![]),
            ("force_off", e("ZERV_FORCE_RUST_LOG_OFF", "1"), vec![]),
            ("log_other_module", e("RUST_LOG", "some_other_crate=debug"), vec![]),
            ("log_invalid_filter", e("RUST_LOG", "zerv=notalevel,,==,[{"), vec![]),
        ];
        // the two loud variants always; of the four quiet ones all for a fault-free git command (and
        // in the thorough tier / a replay), otherwise one chosen by the case identity
        let all_quiet = self.ctx.tier == Tier::Thorough || self.sc.only.is_some() || (case.ends_with(":base") && self.sc.mode != "argv");
        let chosen = (crate::rng::fnv(case) ^ self.sc.sample_seed) % 4;
        for (vi, (name, env, front)) in variants.into_iter().enumerate() {
            if vi >= 2 && !all_quiet && (vi as u64 - 2) != chosen {
                continue;
            }
            let c2 = format!("{case}~{name}");
            let (o, _) = self.child(cmd, repo, &c2, plan, None, &env, &front);
            self.stats.bump("verbosity_identity_checks");
            if o.stdout != base.stdout || o.status != base.status {
                let mut v = Violation::new(
                    PROP,
                    "logs-not-on-stdout",
                    name,
                    format!("{} stdout={:?}", base.status_str(), short(&base.out_str(), 300)),
                    format!("{} stdout={:?}", o.status_str(), short(&o.out_str(), 300)),
                    format!("case={case} argv={:?}", cmd.argv),
                );
                v.narrow = Some(case.to_string());
                self.viol.push(v);
            }
            if name == "rust_log" && o.stderr.len() <= base.stderr.len() && cmd.argv.first().map(|s| s == "version" || s == "flow").unwrap_or(false) {
                self.stats.bump("probe.rust_log_had_no_effect");
            } else if name == "rust_log" {
                self.stats.bump("probe.rust_log_effective");
            }
        }
    }
}

fn corrupt(path: &Path, how: &str, seed: u64) -> bool {
    let Ok(data) = std::fs::read(path) else { return false };
    let r = match how {
        "empty" => std::fs::write(path, b""),
        "half" => std::fs::write(path, &data[..data.len() / 2]),
        "bitflip" => {
            if data.is_empty() {
                return false;
            }
            let mut d = data.clone();
            let i = (seed % d.len() as u64) as usize;
            d[i] ^= 1 << (seed % 8);
            std::fs::write(path, d)
        }
        "delete" => std::fs::remove_file(path),
        "garbage" => {
            let mut st = seed;
            let g: Vec<u8> = (0..data.len().max(16)).map(|_| (crate::rng::splitmix64(&mut st) & 0xff) as u8).collect();
            std::fs::write(path, g)
        }
        _ => return false,
    };
    r.is_ok()
}

pub fn execute(ctx: &Ctx, scv: &serde_json::Value, rd: &RunDir, stats: &mut Stats) -> HResult<Vec<Violation>> {
    let sc: Scenario = serde_json::from_value(scv.clone()).map_err(|e| HarnessError(format!("bad C13 scenario: {e}")))?;
    // ---- the world
    let mut world: Option<World> = None;
    let repo: PathBuf = if !sc.degenerate.is_empty() {
        build_degenerate(rd, &sc.degenerate)?
    } else {
        let mut w = World::create(&rd.repo(), &rd.home(), sc.actors.clone())?;
        for op in &sc.ops {
            if *op != Op::Observe {
                w.apply(op)?;
            }
        }
        let p = w.dir.clone();
        world = Some(w);
        p
    };
    stats.event(format!("scenario mode={} degenerate={:?} ops={} now={}", sc.mode, sc.degenerate, sc.ops.len(), sc.sim_now));
    stats.time(sc.sim_now);
    let mut rn = Runner { ctx, rd, sc: &sc, stats, viol: vec![], ordinal: 0 };
    let every_verbosity = ctx.tier == Tier::Thorough;

    for (ci, cmd) in sc.commands.iter().enumerate() {
        let zsub = cmd.argv.first().cloned().unwrap_or_default();
        // ---- fault-free, traced
        let base_case = format!("c{ci}:base");
        let need_base = sc.only.as_ref().map(|o| o.starts_with(&format!("c{ci}:"))).unwrap_or(true);
        if !need_base {
            continue;
        }
        // in argv mode the commands themselves are the enumerated cases
        if sc.mode == "argv" && sc.only.is_none() {
            rn.ordinal += 1;
            if let Some((i, n)) = sc.shard {
                if n > 1 && rn.ordinal % n != i {
                    continue;
                }
            }
        }
        let replaying_this = sc.only.as_deref() == Some(base_case.as_str());
        let (base, n_inv) = rn.child(cmd, &repo, &base_case, "", None, &[], &[]);
        let base_trace = rn.rd.trace();
        let first_shard = sc.mode == "argv" || sc.shard.map(|(i, _)| i == 0).unwrap_or(true);
        if replaying_this || (sc.only.is_none() && first_shard && (sc.mode != "argv" || rn.pick(&base_case, 4) || every_verbosity)) {
            rn.verbosity_identity(cmd, &repo, &base_case, "", &base);
        }
        rn.stats.distinct_in("argv_shapes", &format!("{:?}", cmd.argv.iter().map(|a| a.split('=').next().unwrap_or("").to_string()).filter(|a| a.starts_with('-')).collect::<Vec<_>>()));

        match sc.mode.as_str() {
            "gitfaults" => {
                // every invocation × every fault kind
                for k in 1..=n_inv {
                    let gsub = base_trace.get(k - 1).map(|(_, _, a)| a.split('"').nth(1).unwrap_or("").to_string()).unwrap_or_default();
                    for kind in FAULT_KINDS {
                        let case = format!("c{ci}:git:{k}:{kind}");
                        if !rn.wanted(&case) {
                            continue;
                        }
                        let plan = format!("fault {k} {kind}\n");
                        let (o, _) = rn.child(cmd, &repo, &case, &plan, None, &[], &[]);
                        let fired = rn.rd.trace().iter().any(|(kk, d, _)| *kk == k && d.starts_with("fault:"));
                        if fired {
                            rn.stats.bump(&format!("fault.git.{kind}"));
                            let class = if o.ok() { "ok" } else { "fail" };
                            rn.stats.distinct_key(&format!("{gsub}|{k}|{kind}|{zsub}|{class}"));
                            if o.ok() {
                                rn.stats.bump("degraded_success_under_fault");
                            }
                        }
                        if fired && (every_verbosity || sc.only.is_some() || rn.pick(&case, 12)) {
                            rn.verbosity_identity(cmd, &repo, &case, &plan, &o);
                        }
                    }
                }
                // seeded sequences of 2-3 faults
                let nseq = if ctx.tier == Tier::Thorough { 12 } else { 3 };
                for s in 0..nseq {
                    if n_inv < 2 {
                        break;
                    }
                    let mut plan = String::new();
                    let mut sr = Rng::new(sc.sample_seed ^ ((ci as u64) << 32) ^ (s as u64 + 1));
                    let nf = 2 + sr.below(2);
                    let mut desc = vec![];
                    for _ in 0..nf {
                        let k = 1 + sr.below(n_inv as u64);
                        let kind = *sr.pick(FAULT_KINDS);
                        plan.push_str(&format!("fault {k} {kind}\n"));
                        desc.push(format!("{k}.{kind}"));
                    }
                    let case = format!("c{ci}:gitseq:{s}:{}", desc.join("+"));
                    if !rn.wanted(&case) {
                        continue;
                    }
                    rn.child(cmd, &repo, &case, &plan, None, &[], &[]);
                    rn.stats.bump("fault.git.sequence");
                }
                // persistent faults: the same failure on EVERY invocation of one sub-command, and on every
                // invocation at all (a retry loop only shows when the fault does not go away)
                let subs: std::collections::BTreeSet<String> = base_trace.iter().map(|(_, _, a)| a.split('"').nth(1).unwrap_or("").to_string()).filter(|s| !s.is_empty() && !s.starts_with('-')).collect();
                let persistent_kinds: Vec<&str> = FAULT_KINDS.iter().copied().filter(|k| k.starts_with("exit") || *k == "ok_empty" || *k == "sigkill").collect();
                for kind in &persistent_kinds {
                    for target in subs.iter().map(|s| format!("sub:{s}")).chain(std::iter::once("*".to_string())) {
                        let case = format!("c{ci}:persist:{target}:{kind}");
                        // quick tier: every kind on every invocation ("*"), a third of the per-sub-command ones
                        if ctx.tier == Tier::Quick && sc.only.is_none() && target != "*" && !rn.pick(&case, 3) {
                            continue;
                        }
                        if !rn.wanted(&case) {
                            continue;
                        }
                        let plan = format!("fault {target} {kind}\n");
                        let (o, _) = rn.child(cmd, &repo, &case, &plan, None, &[], &[]);
                        rn.stats.bump(&format!("fault.persist.{kind}"));
                        rn.stats.distinct_key(&format!("persist|{target}|{kind}|{zsub}|{}", if o.ok() { "ok" } else { "fail" }));
                    }
                }
                // whole-run variants
                for kind in WHOLE_KINDS {
                    let case = format!("c{ci}:whole:{kind}");
                    if !rn.wanted(&case) {
                        continue;
                    }
                    let alt = rd.dir.join(format!("bin-{kind}"));
                    let _ = std::fs::remove_dir_all(&alt);
                    let _ = std::fs::create_dir_all(&alt);
                    let mut plan = String::new();
                    let mut path = Some(alt.to_string_lossy().to_string());
                    match *kind {
                        "missing" => {}
                        "notexec" => {
                            let _ = std::fs::write(alt.join("git"), "#!/bin/sh\nexit 0\n");
                            use std::os::unix::fs::PermissionsExt;
                            let _ = std::fs::set_permissions(alt.join("git"), std::fs::Permissions::from_mode(0o644));
                        }
                        "dir" => {
                            let _ = std::fs::create_dir_all(alt.join("git"));
                        }
                        "enoexec" => {
                            let _ = std::fs::write(alt.join("git"), "");
                            use std::os::unix::fs::PermissionsExt;
                            let _ = std::fs::set_permissions(alt.join("git"), std::fs::Permissions::from_mode(0o755));
                        }
                        "budget3" => {
                            path = None;
                            plan = "budget 3\n".into();
                        }
                        "all_fail" => {
                            path = None;
                            plan = "fault * exit128_notrepo\n".into();
                        }
                        _ => {
                            path = None;
                            plan = "fault * ok_empty\n".into();
                        }
                    }
                    let (o, _) = rn.child(cmd, &repo, &case, &plan, path, &[], &[]);
                    rn.stats.bump(&format!("fault.whole.{kind}"));
                    rn.stats.distinct_key(&format!("whole|{kind}|{zsub}|{}", if o.ok() { "ok" } else { "fail" }));
                }
            }
            "storage" => {
                if let Some(w) = &world {
                    let head_hash = w.head_commit().map(|h| w.commits[h].hash.clone()).unwrap_or_default();
                    for target in STORAGE_TARGETS {
                        for how in STORAGE_HOWS {
                            let case = format!("c{ci}:storage:{target}:{how}");
                            if !rn.wanted(&case) {
                                continue;
                            }
                            let copy = rd.dir.join("repo-copy");
                            let _ = std::fs::remove_dir_all(&copy);
                            if copy_dir(&w.dir, &copy).is_err() {
                                continue;
                            }
                            let g = copy.join(".git");
                            let seed = crate::rng::fnv(&case) ^ sc.sample_seed;
                            let applied = match *target {
                                "HEAD" => corrupt(&g.join("HEAD"), how, seed),
                                "index" => corrupt(&g.join("index"), how, seed),
                                "config" => corrupt(&g.join("config"), how, seed),
                                "packed-refs" => {
                                    let mut w2 = w.clone();
                                    w2.dir = copy.clone();
                                    let _ = w2.git(&["pack-refs", "--all"], None, None);
                                    corrupt(&g.join("packed-refs"), how, seed)
                                }
                                "loose-ref" => {
                                    let cands = [g.join("refs/tags/v1.0.0"), g.join("refs/heads/main"), g.join("refs/heads/feature/x")];
                                    let pick = &cands[(seed % 3) as usize];
                                    corrupt(pick, how, seed)
                                }
                                "head-object" => {
                                    if head_hash.len() == 40 {
                                        let p = g.join("objects").join(&head_hash[..2]).join(&head_hash[2..]);
                                        use std::os::unix::fs::PermissionsExt;
                                        let _ = std::fs::set_permissions(&p, std::fs::Permissions::from_mode(0o644));
                                        corrupt(&p, how, seed)
                                    } else {
                                        false
                                    }
                                }
                                "dotgit-file" => {
                                    if *how == "empty" {
                                        let _ = std::fs::remove_dir_all(&g);
                                        std::fs::write(&g, "gitdir: /nonexistent/zsim\n").is_ok()
                                    } else if *how == "garbage" {
                                        let _ = std::fs::remove_dir_all(&g);
                                        std::fs::write(&g, b"\xff\xfe garbage").is_ok()
                                    } else {
                                        false
                                    }
                                }
                                "shallow" => {
                                    if *how == "empty" {
                                        std::fs::write(g.join("shallow"), format!("{head_hash}\n")).is_ok()
                                    } else if *how == "garbage" {
                                        std::fs::write(g.join("shallow"), b"not a hash\n").is_ok()
                                    } else {
                                        false
                                    }
                                }
                                "objects-dir" => {
                                    if *how == "delete" {
                                        std::fs::remove_dir_all(g.join("objects")).is_ok()
                                    } else {
                                        false
                                    }
                                }
                                _ => false,
                            };
                            if !applied {
                                continue;
                            }
                            let (o, _) = rn.child(cmd, &copy, &case, "", None, &[], &[]);
                            rn.stats.bump(&format!("fault.storage.{target}.{how}"));
                            rn.stats.distinct_key(&format!("storage|{target}|{how}|{zsub}|{}", if o.ok() { "ok" } else { "fail" }));
                            let _ = std::fs::remove_dir_all(&copy);
                        }
                    }
                }
            }
            "misc" => {
                // stdin faults (stdin is read on every invocation, whatever the source)
                let stdins: Vec<(&str, StdinSpec)> = vec![
                    ("closed", StdinSpec::Closed),
                    ("dir", StdinSpec::Dir),
                    ("empty", StdinSpec::Bytes(vec![])),
                    ("whitespace", StdinSpec::Text("  \n\t\n".into())),
                    ("invalid-utf8", StdinSpec::Bytes(vec![0x28, 0xff, 0xfe, 0xc3, 0x28, b'\n'])),
                    ("nul", StdinSpec::Bytes(b"(\0)".to_vec())),
                    ("torn", StdinSpec::Text(stdin_docs()[0][..300].to_string())),
                    ("huge", StdinSpec::Big(10 << 20)),
                    ("valid-doc", StdinSpec::Text(stdin_docs()[0].clone())),
                ];
                for (name, sp) in stdins {
                    let case = format!("c{ci}:stdin:{name}");
                    if !rn.wanted(&case) {
                        continue;
                    }
                    let mut c2 = cmd.clone();
                    c2.stdin = sp;
                    let (o, _) = rn.child(&c2, &repo, &case, "", None, &[], &[]);
                    rn.stats.bump(&format!("fault.stdin.{name}"));
                    rn.stats.distinct_key(&format!("stdin|{name}|{zsub}|{}", if o.ok() { "ok" } else { "fail" }));
                }
                // stdout faults: the reader is gone (EPIPE) or the device is full (ENOSPC)
                for (name, mode, extra) in [
                    ("closed", crate::proc::Stdout::ClosedPipe, None),
                    ("full", crate::proc::Stdout::DevFull, None),
                    ("closed-help", crate::proc::Stdout::ClosedPipe, Some("--help")),
                    ("full-help", crate::proc::Stdout::DevFull, Some("--help")),
                    ("closed-version", crate::proc::Stdout::ClosedPipe, Some("--version")),
                    ("full-llm-help", crate::proc::Stdout::DevFull, Some("--llm-help")),
                ] {
                    let case = format!("c{ci}:stdout:{name}");
                    if !rn.wanted(&case) {
                        continue;
                    }
                    let mut c2 = cmd.clone();
                    match extra {
                        Some("--version") | Some("--llm-help") => c2.argv = vec![extra.unwrap().to_string()],
                        Some(e) => c2.argv.push(e.to_string()),
                        None => {}
                    }
                    rn.rd.set_plan(&format!("budget {STEP_BUDGET}\n"));
                    rn.rd.reset_trace();
                    let mut call = make_call(rn.rd, &c2, &repo, sc.sim_now, "stdout");
                    call.stdout = mode;
                    call.env = vec![("PAGER".into(), "cat".into())];
                    let o = run_zerv(ctx, rd, &call, rn.stats);
                    rn.stats.bump("children");
                    rn.stats.bump(&format!("fault.stdout.{name}"));
                    rn.stats.distinct_key(&format!("stdout|{name}|{zsub}|{}", o.status_str()));
                    rn.stats.event(format!("case {case} argv={:?} -> {} err={}", c2.argv, o.status_str(), short(&norm(ctx, &o.err_str()), 300)));
                    // stdout is lost by construction: only the no-panic / no-abort / liveness part applies
                    let mut o2 = o.clone();
                    o2.stdout.clear();
                    if let Some(v) = judge_child(&o2, &c2.argv, &case, 0) {
                        if v.clause == "no-panic" || v.clause == "no-abort" || v.clause == "liveness" {
                            rn.viol.push(v);
                        }
                    }
                }
                // stderr faults: the diagnostic channel itself is broken (closed reader, full device),
                // alone and together with a broken stdout, on a failing and on a verbose command
                for (name, so, se, extra) in [
                    ("stderr-full-failing", crate::proc::Stdout::Capture, crate::proc::Stdout::DevFull, vec!["--source", "nope"]),
                    ("stderr-closed-failing", crate::proc::Stdout::Capture, crate::proc::Stdout::ClosedPipe, vec!["--source", "nope"]),
                    ("stderr-full-verbose", crate::proc::Stdout::Capture, crate::proc::Stdout::DevFull, vec!["-v"]),
                    ("stderr-closed-verbose", crate::proc::Stdout::Capture, crate::proc::Stdout::ClosedPipe, vec!["-v"]),
                    ("both-full", crate::proc::Stdout::DevFull, crate::proc::Stdout::DevFull, vec![]),
                    ("both-closed-verbose", crate::proc::Stdout::ClosedPipe, crate::proc::Stdout::ClosedPipe, vec!["-v"]),
                    ("stderr-full-help", crate::proc::Stdout::Capture, crate::proc::Stdout::DevFull, vec!["--help"]),
                ] {
                    let case = format!("c{ci}:stderr:{name}");
                    if !rn.wanted(&case) {
                        continue;
                    }
                    let mut c2 = cmd.clone();
                    c2.argv.extend(extra.iter().map(|s| s.to_string()));
                    rn.rd.set_plan(&format!("budget {STEP_BUDGET}\n"));
                    rn.rd.reset_trace();
                    let mut call = make_call(rn.rd, &c2, &repo, sc.sim_now, "stderr");
                    call.stdout = so;
                    call.stderr = se;
                    let o = run_zerv(ctx, rd, &call, rn.stats);
                    rn.stats.bump("children");
                    rn.stats.bump(&format!("fault.stderr.{name}"));
                    rn.stats.distinct_key(&format!("stderr|{name}|{zsub}|{}", o.status_str()));
                    rn.stats.event(format!("case {case} argv={:?} -> {}", c2.argv, o.status_str()));
                    // stderr is lost by construction: exit 101 / a signal / a hang are what remains observable
                    let mut o2 = o.clone();
                    o2.stdout.clear();
                    o2.stderr = b"(stderr not observable in this case)".to_vec();
                    if let Some(v) = judge_child(&o2, &c2.argv, &case, 0) {
                        if v.clause == "no-panic" || v.clause == "no-abort" || v.clause == "liveness" {
                            rn.viol.push(v);
                        }
                    }
                }
                // cwd faults
                for name in ["deleted", "dash-c-file", "dash-c-missing", "dash-c-empty", "dash-c-dotgit", "dash-c-nonutf8"] {
                    let case = format!("c{ci}:cwd:{name}");
                    if !rn.wanted(&case) {
                        continue;
                    }
                    let mut c2 = cmd.clone();
                    // drop an existing -C
                    if let Some(i) = c2.argv.iter().position(|a| a == "-C") {
                        c2.argv.drain(i..(i + 2).min(c2.argv.len()));
                    }
                    match name {
                        "deleted" => c2.cwd = "deleted".into(),
                        "dash-c-file" => c2.argv.extend(["-C".into(), "/etc/hostname".into()]),
                        "dash-c-missing" => c2.argv.extend(["-C".into(), "/nonexistent/zsim".into()]),
                        "dash-c-empty" => c2.argv.extend(["-C".into(), "".into()]),
                        "dash-c-dotgit" => c2.argv.extend(["-C".into(), "$REPO/.git".into()]),
                        _ => {}
                    }
                    if name == "dash-c-nonutf8" {
                        // argv that is not valid UTF-8 at all
                        rn.rd.set_plan(&format!("budget {STEP_BUDGET}\n"));
                        rn.rd.reset_trace();
                        let mut call = make_call(rn.rd, &c2, &repo, sc.sim_now, "nonutf8");
                        use std::os::unix::ffi::OsStringExt;
                        call.args.push(OsString::from("-C"));
                        call.args.push(OsString::from_vec(b"/tmp/\xff\xfe".to_vec()));
                        let o = run_zerv(ctx, rd, &call, rn.stats);
                        rn.stats.bump("children");
                        rn.stats.event(format!("case {case} -> {} err={}", o.status_str(), short(&norm(ctx, &o.err_str()), 200)));
                        let mut argv = c2.argv.clone();
                        argv.push("-C".into());
                        argv.push("<non-UTF-8 bytes>".into());
                        if let Some(v) = judge_child(&o, &argv, &case, 0) {
                            rn.viol.push(v);
                        }
                    } else {
                        rn.child(&c2, &repo, &case, "", None, &[], &[]);
                    }
                    rn.stats.bump(&format!("fault.cwd.{name}"));
                    rn.stats.distinct_key(&format!("cwd|{name}|{zsub}"));
                }
            }
            "mutate" => {
                if world.is_some() {
                    for k in 1..=n_inv {
                        for m in MUTATIONS {
                            let case = format!("c{ci}:mutate:{k}:{m}");
                            if !rn.wanted(&case) {
                                continue;
                            }
                            let copy = rd.dir.join("repo-copy");
                            let _ = std::fs::remove_dir_all(&copy);
                            if copy_dir(&repo, &copy).is_err() {
                                continue;
                            }
                            let script = rd.dir.join("mutate.sh");
                            let git = format!(
                                "cd '{}' || exit 0\nexport HOME='{}' GIT_CONFIG_NOSYSTEM=1 GIT_CONFIG_GLOBAL=/dev/null GIT_AUTHOR_NAME=m GIT_AUTHOR_EMAIL=m@x GIT_COMMITTER_NAME=m GIT_COMMITTER_EMAIL=m@x GIT_AUTHOR_DATE='@1900000000 +0000' GIT_COMMITTER_DATE='@1900000000 +0000'\n",
                                copy.display(),
                                rd.home().display()
                            );
                            let body = match *m {
                                "commit" => "git commit -q --allow-empty -m concurrent\n",
                                "tag-higher" => "git tag v99.0.0\n",
                                "delete-tags" => "git tag -l | xargs -r git tag -d\n",
                                "detach" => "git checkout -q --detach HEAD~0\n",
                                "create-file" => "echo x > concurrent.txt\n",
                                "rm-dotgit" => "rm -rf .git\n",
                                "checkout-other" => "git checkout -q -b concurrent-branch\n",
                                _ => "git reflog expire --expire=now --all; git gc -q --prune=now\n",
                            };
                            let _ = std::fs::write(&script, format!("{git}{body}"));
                            let plan = format!("mutate {k} {}\n", script.display());
                            rn.child(cmd, &copy, &case, &plan, None, &[], &[]);
                            let fired = rn.rd.trace().iter().any(|(kk, d, _)| *kk == k && d.contains("+mutate"));
                            if fired {
                                rn.stats.bump(&format!("fault.mutate.{m}"));
                                rn.stats.distinct_key(&format!("mutate|{k}|{m}|{zsub}"));
                            }
                            let _ = std::fs::remove_dir_all(&copy);
                        }
                    }
                }
            }
            _ => {}
        }
    }
    if rn.stats.samples.is_empty() {
        if let Some(c) = sc.commands.first() {
            let s = serde_json::json!({"mode": sc.mode, "degenerate": sc.degenerate, "ops": sc.ops.len(), "first_command": c.argv, "commands": sc.commands.len()});
            rn.stats.samples.push(s);
        }
    }
    let viol = std::mem::take(&mut rn.viol);
    if let Some(w) = &world {
        stats.git_spawns += w.nspawn;
    }
    Ok(viol)
}

// ------------------------------------------------------------------------------------------
// minimisation

pub fn shrink(scv: &serde_json::Value) -> Vec<serde_json::Value> {
    let Ok(sc) = serde_json::from_value::<Scenario>(scv.clone()) else { return vec![] };
    let mut out: Vec<Scenario> = vec![];
    // keep only the command the case refers to
    if let Some(only) = &sc.only {
        if sc.commands.len() > 1 {
            if let Some(ci) = only.strip_prefix('c').and_then(|s| s.split(':').next()).and_then(|s| s.parse::<usize>().ok()) {
                if ci < sc.commands.len() {
                    let mut s = sc.clone();
                    s.commands = vec![sc.commands[ci].clone()];
                    s.only = Some(format!("c0{}", &only[only.find(':').unwrap_or(only.len())..]));
                    out.push(s);
                }
            }
        }
    }
    // drop world operations
    let n = sc.ops.len();
    let mut chunk = n;
    while chunk >= 1 {
        let mut i = 0;
        while i < n {
            let mut s = sc.clone();
            s.ops.drain(i..(i + chunk).min(n));
            out.push(s);
            i += chunk;
        }
        chunk /= 2;
    }
    // drop arguments (single args and flag/value pairs) of each command
    for (ci, c) in sc.commands.iter().enumerate() {
        for i in 1..c.argv.len() {
            let mut s = sc.clone();
            s.commands[ci].argv.remove(i);
            out.push(s);
            if i + 1 < c.argv.len() {
                let mut s = sc.clone();
                s.commands[ci].argv.drain(i..i + 2);
                out.push(s);
            }
        }
        if c.stdin != StdinSpec::Null {
            let mut s = sc.clone();
            s.commands[ci].stdin = StdinSpec::Null;
            out.push(s);
        }
        if c.cwd != "/" {
            let mut s = sc.clone();
            s.commands[ci].cwd = "/".into();
            out.push(s);
        }
    }
    if sc.sim_now != 2_000_000_000 {
        let mut s = sc.clone();
        s.sim_now = 2_000_000_000;
        out.push(s);
    }
    out.into_iter().map(|s| serde_json::to_value(s).unwrap()).collect()
}
