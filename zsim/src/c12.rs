//! C12 – Zerv RON is a lossless interchange format; invalid objects are refused.
//! Two-process pipeline simulation: the simulator is the pipe.  It runs the producer to
//! completion, then delivers the bytes to the consumer in seeded chunks at a later simulated
//! instant, possibly damaged (truncate, bit flip, dropped / duplicated chunk, structural
//! rewrite of the schema).

use crate::argvgen;
use crate::c02;
use crate::proc::{Outcome, Status, Stdin};
use crate::rng::Rng;
use crate::sim::*;
use crate::world::*;
use crate::zron;
use serde::{Deserialize, Serialize};
use std::ffi::OsString;
use std::path::{Path, PathBuf};

pub const PROP: &str = "C12";

#[derive(Serialize, Deserialize, Clone, Debug, PartialEq)]
pub enum Fault {
    Truncate(usize),
    BitFlip(usize, u8),
    DropChunk(usize, usize),
    DupChunk(usize, usize),
    Rewrite(String),
    /// two structural edits applied one after the other (a hole that needs two conditions at once)
    Rewrite2(String, String),
    /// text added after (true) or before (false) an otherwise intact document
    Junk(bool, String),
}

#[derive(Serialize, Deserialize, Clone, Debug)]
pub struct Scenario {
    /// "git" | "none" | "doc"
    pub kind: String,
    pub actors: Vec<Actor>,
    pub ops: Vec<Op>,
    /// producer argv without --output-format (git: `$REPO` placeholder is added by the engine)
    pub argv: Vec<String>,
    /// producer document given literally (kind = "doc")
    pub doc: String,
    pub sim_now: i64,
    /// clock advance between producer and consumer for the advanced-clock configuration
    pub delta: i64,
    pub hops: usize,
    pub chunks: Vec<usize>,
    pub faults: Vec<Fault>,
    pub templates: Vec<String>,
    #[serde(default)]
    pub only: Option<String>,
}

pub const FINAL_TEMPLATES: &[&str] = &[
    "{{ semver }} {{ pep440 }}",
    "{{ major }}.{{ minor }}.{{ patch }}|{{ epoch }}|{{ post }}|{{ dev }}",
    "{{ bumped_branch }}|{{ bumped_commit_hash }}|{{ bumped_commit_hash_short }}|{{ distance }}|{{ dirty }}",
    "{{ last_commit_hash }}|{{ last_timestamp }}|{{ bumped_timestamp }}",
    "{{ custom | json_encode }}",
    "{{ pre_release.label }}.{{ pre_release.number }}",
    "{{ semver_obj.base_part }}~{{ semver_obj.pre_release_part }}~{{ semver_obj.build_part }}~{{ semver_obj.docker }}",
    "{{ pep440_obj.base_part }}~{{ pep440_obj.pre_release_part }}~{{ pep440_obj.build_part }}",
    "{{ format_timestamp(value=bumped_timestamp, format='%Y-%m-%dT%H:%M:%S') }}",
    "{{ hash_int(value=bumped_branch, length=6) }}",
];

pub const REWRITES: &[&str] = &[
    "move-primary-to-extra", "move-primary-to-build", "move-secondary-to-core", "move-secondary-to-build", "dup-primary", "dup-secondary",
    "swap-major-minor", "unknown-ts", "empty-all", "add-str-build", "dup-context", "patch-before-major", "epoch-in-build", "ts-in-core-ok",
    "swap-minor-patch", "rotate-primaries", "dup-minor-only", "post-in-core", "dev-in-build", "major-last-in-build",
    "unknown-ts:core", "unknown-ts:extra_core", "unknown-ts:build", "empty-ts:extra_core", "combined-ts:extra_core", "combined-ts:core",
    "dup-context:core", "dup-context:extra_core", "str-in:core", "str-in:extra_core", "uint-in:extra_core", "custom-in:core", "custom-in:extra_core",
    "dup-primary-apart", "dup-secondary-apart", "empty-precedence", "drop-precedence:Minor", "drop-precedence:Major", "drop-precedence:Post",
    "dup-precedence:Major", "reverse-precedence", "padded-ts:core", "padded-ts:extra_core", "padded-ts:build", "lower-ts:build", "long-ts:core",
    "percent-ts:build", "percent-ts:extra_core",
];

fn hostile_none_argv(r: &mut Rng) -> Vec<String> {
    let sub = if r.chance(3, 4) { "version" } else { "flow" };
    let mut a: Vec<String> = vec![sub.into(), "--source".into(), "none".into()];
    let tags = [
        "1.2.3", "v0.9.9-rc.2", "1.0.0a1", "2!1.0.post3", "1.2.3-alpha.1.post.4.dev.5+b.7", "0.0.0", "1.0.0+build.sha.5114f85",
        "18446744073709551615.18446744073709551615.18446744073709551615", "1.0.0-alpha.4294967295", "3!2.1.0rc4294967295.post7.dev9+local.1",
        "1.2", "7", "1.2.3.4.5", "1.0.0-x.y.z", "1.0.0-alpha.beta", "1.0.0-0.3.7", "1.0.0-rc.1+exp.sha-1.x",
    ];
    a.extend(["--tag-version".into(), r.pick(&tags).to_string()]);
    if r.chance(3, 4) {
        a.extend(["--bumped-branch".into(), r.pick(argvgen::TEXTS).to_string()]);
    }
    if r.chance(1, 2) {
        a.extend(["--bumped-commit-hash".into(), r.pick(argvgen::HASHES).to_string()]);
    }
    if r.chance(1, 2) {
        a.extend(["--distance".into(), r.pick(&["0", "1", "7", "4294967295"]).to_string()]);
    }
    if r.chance(1, 3) {
        a.push("--dirty".into());
    }
    if r.chance(1, 2) {
        a.extend(["--bumped-timestamp".into(), r.pick(&["0", "1", "1700000000", "1704067199", "4102444799", "253402300799", "9223372036854775807"]).to_string()]);
    }
    if sub == "version" {
        if r.chance(1, 2) {
            a.extend(["--custom".into(), r.pick(&argvgen::CUSTOMS[..6]).to_string()]);
        } else if r.chance(1, 2) {
            let hostile_custom = [
                "{\"a\":{\"b\":[1,2.5,\"x\\\"y\",null,true]},\"k\":\"v\\n\\\\\"}", "{\"é\":\"日本\",\"e\":\"\\ud83d\\ude80\"}", "{\"a\":-0.0,\"b\":1e308,\"c\":1.5e-300}",
                "{\"a\":18446744073709551615,\"b\":-9223372036854775808}", "{\"a\":{\"b\":{\"c\":{\"d\":{\"e\":{\"f\":[[[[]]]]}}}}}}", "{\"a.b\":1,\"\":2,\" \":3}",
                "{\"a\":\"\\u0000\\u001f\\u007f\"}", "{\"z\":1,\"a\":2,\"m\":3}", "{\"a\":\"(\",\"b\":\")\",\"c\":\"//\",\"d\":\"/* */\"}", "{\"a\":1.0,\"b\":10000000000000000000000}",
                "{\"a\":[],\"b\":{},\"c\":\"\"}", "[1,2,3]", "\"just a string\"", "42", "null", "true",
            ];
            let deep = format!("{}1{}", "{\"a\":".repeat(70), "}".repeat(70));
            let deep_arr = format!("{}{}", "[".repeat(100), "]".repeat(100));
            let hostile_custom: Vec<&str> = hostile_custom.iter().copied().chain([deep.as_str(), deep_arr.as_str()]).collect();
            a.extend(["--custom".into(), r.pick(&hostile_custom).to_string()]);
        }
        for (flag, vals) in [
            ("--major", &["0", "7", "4294967295"][..]), ("--epoch", &["0", "3", "4294967295"][..]), ("--post", &["0", "9", "4294967295"][..]),
            ("--dev", &["0", "11", "4294967295"][..]), ("--pre-release-num", &["0", "5", "4294967295"][..]),
        ] {
            if r.chance(1, 6) {
                a.extend([flag.to_string(), r.pick(vals).to_string()]);
            }
        }
        if r.chance(1, 5) {
            a.extend(["--pre-release-label".into(), r.pick(&["alpha", "beta", "rc"]).to_string()]);
        }
        if r.chance(1, 6) {
            a.push(r.pick(&["--bump-patch", "--bump-minor", "--bump-post", "--bump-dev", "--bump-epoch", "--no-bump-context"]).to_string());
        }
    }
    match r.below(4) {
        0 | 1 => {
            let presets = if sub == "flow" { &argvgen::SCHEMAS[..11] } else { &argvgen::SCHEMAS[..21] };
            a.extend(["--schema".into(), r.pick(presets).to_string()]);
        }
        2 if sub == "version" => {
            let rons = [
                &argvgen::SCHEMA_RONS[..],
                &["(core:[str(\"a\\\"b\"),str(\"\\\\\"),str(\"\\n\"),uint(0)],extra_core:[var(Epoch),var(Dev)],build:[var(custom(\"a.b\")),var(custom(\"k\")),str(\"日本\")])"][..],
                &["(core:[var(Major),var(Minor),var(Patch)],extra_core:[var(PreRelease),var(Post),var(Dev),var(Epoch)],build:[var(BumpedTimestamp),var(LastTimestamp),var(Dirty),var(LastCommitHashShort),var(ts(\"%Y%j\"))])"][..],
            ]
            .concat();
            a.extend(["--schema-ron".into(), r.pick(&rons).to_string()]);
        }
        _ => {}
    }
    a
}

pub fn generate(r: &mut Rng, tier: Tier, _group: u64) -> serde_json::Value {
    let kind = *r.pick(&["none", "none", "none", "git", "doc", "render"]);
    let (actors, mut ops, _) = c02::gen_history_with(r, 4, 10, false);
    let mut argv = vec![];
    let mut doc = String::new();
    match kind {
        "git" => {
            if r.chance(4, 5) {
                ops.insert(0, Op::Commit { actor: 0, dt: 0, adt: 0, with_file: false });
                ops.insert(1, Op::Tag { name: r.pick(&["v1.4.2", "2.0.0-rc.1", "1.0.0a3", "1!4.5.6"]).to_string(), kind: TagKind::Light, target: None, actor: 0, dt: 0 });
            }
            let sub = if r.chance(1, 2) { "version" } else { "flow" };
            argv = vec![sub.to_string()];
            if r.chance(1, 2) {
                let presets = if sub == "flow" { &argvgen::SCHEMAS[..11] } else { &argvgen::SCHEMAS[..21] };
                argv.extend(["--schema".into(), r.pick(presets).to_string()]);
            }
        }
        "none" => {
            ops.clear();
            argv = hostile_none_argv(r);
        }
        "render" => {
            // `zerv render <version> --output-format zerv` emits objects too
            ops.clear();
            let versions = [
                "1.2.3", "v1.2.3-alpha.1", "1.2.3-rc.1.post.2", "1.2.3rc1", "1!2.3.4", "1.0.0+build.5", "1.0.0-epoch.0", "1.0.0-epoch.3.alpha.2", "2.0.0-alpha",
                "1.2.3.post4.dev5", "1.0.0-x.y.z", "1.0.0-alpha.beta", "1.0.0-0.3.7", "1.2", "7", "1.2.3.4.5", "0.0.0", "1.0.0-post.1.dev.2", "1.0.0-dev.0",
                "18446744073709551615.0.0", "1.0.0-alpha.4294967295", "1.0.0+a.b.c.1.2.3", "1.0a1+local.7",
            ];
            argv = vec!["render".to_string(), r.pick(&versions).to_string()];
            if r.chance(1, 3) {
                argv.extend(["--input-format".to_string(), r.pick(&["auto", "semver", "pep440"]).to_string()]);
            }
        }
        _ => {
            ops.clear();
            let docs = crate::c13::stdin_docs();
            doc = docs[r.below(13) as usize].clone();
        }
    }
    let last = actors.iter().map(|a| a.clock).max().unwrap_or(1_700_000_000);
    let sim_now = match r.below(5) {
        0 => (last / 86400) * 86400 + 86399,
        1 => 1_735_689_599,
        _ => last + r.range(0, 100_000),
    }
    .clamp(0, 4_294_000_000);
    let delta = *r.pick(&[1i64, 2, 61, 3600, 86_400, 31_536_000]);
    let nchunks = r.below(6);
    let chunks: Vec<usize> = (0..nchunks).map(|_| *r.pick(&[1usize, 2, 3, 7, 64, 500, 4096])).collect();
    let nfaults = if tier == Tier::Thorough { 24 } else { 10 };
    let mut faults = vec![];
    for _ in 0..nfaults {
        faults.push(match r.below(10) {
            0..=3 => Fault::Truncate(r.below(1_000_000) as usize),
            4 | 5 => Fault::BitFlip(r.below(1_000_000) as usize, r.below(8) as u8),
            6 => Fault::DropChunk(r.below(1_000_000) as usize, 1 + r.below(40) as usize),
            7 => Fault::DupChunk(r.below(1_000_000) as usize, 1 + r.below(40) as usize),
            _ => Fault::Rewrite(r.pick(REWRITES).to_string()),
        });
    }
    for _ in 0..3 {
        // half of the pairs combine a placement edit with an edit of the precedence list
        let prec: Vec<&&str> = REWRITES.iter().filter(|k| k.contains("precedence")).collect();
        let second = if r.chance(1, 2) { r.pick(&prec).to_string() } else { r.pick(REWRITES).to_string() };
        faults.push(Fault::Rewrite2(r.pick(REWRITES).to_string(), second));
    }
    for _ in 0..2 {
        let junk = *r.pick(&["garbage", ")", ",", "()", "x", "\n(\n)\n", "// a trailing comment\n", "/* block */", "#![enable(implicit_some)]", "\u{feff}", "\0", "<<DOC>>", " \n\t "]);
        faults.push(Fault::Junk(r.chance(3, 4), junk.to_string()));
    }
    // a few always-present truncations: everything but the last byte, the last two, half
    faults.push(Fault::Truncate(1_000_001));
    faults.push(Fault::Truncate(1_000_002));
    let mut templates: Vec<String> = vec![];
    for _ in 0..2 {
        let t = r.pick(FINAL_TEMPLATES).to_string();
        if !templates.contains(&t) {
            templates.push(t);
        }
    }
    let sc = Scenario { kind: kind.into(), actors, ops, argv, doc, sim_now, delta, hops: 1 + r.below(3) as usize, chunks, faults, templates, only: None };
    serde_json::to_value(sc).unwrap()
}

// ------------------------------------------------------------------------------------------
// the rewriting middle-man (document mutation = input generation; labelled as such)

fn section_bounds(lines: &[String], name: &str) -> Option<(usize, usize)> {
    let start = lines.iter().position(|l| l.trim_start().starts_with(&format!("{name}: [")))?;
    if lines[start].trim_end().ends_with("[],") {
        return Some((start, start));
    }
    let end = (start + 1..lines.len()).find(|&i| lines[i].trim() == "],")?;
    Some((start, end))
}

fn open_section(lines: &mut Vec<String>, name: &str) -> Option<usize> {
    // make sure `name: [` … `],` spans several lines; returns the index after the opening line
    let (s, e) = section_bounds(lines, name)?;
    if s == e {
        let indent: String = lines[s].chars().take_while(|c| c.is_whitespace()).collect();
        lines[s] = format!("{indent}{name}: [");
        lines.insert(s + 1, format!("{indent}],"));
    }
    Some(s + 1)
}

pub fn rewrite(doc: &str, kind: &str) -> Option<String> {
    let mut lines: Vec<String> = doc.lines().map(|s| s.to_string()).collect();
    let find_in = |lines: &Vec<String>, sec: &str, pats: &[&str]| -> Option<usize> {
        let (s, e) = section_bounds(lines, sec)?;
        (s + 1..e).find(|&i| pats.iter().any(|p| lines[i].trim() == format!("{p},")))
    };
    let prim = ["var(Major)", "var(Minor)", "var(Patch)"];
    let sec = ["var(Epoch)", "var(PreRelease)", "var(Post)", "var(Dev)"];
    let ctx = ["var(Distance)", "var(BumpedBranch)", "var(BumpedCommitHashShort)", "var(Dirty)"];
    let comp_indent = "            ";
    match kind {
        "move-primary-to-extra" | "move-primary-to-build" => {
            let i = find_in(&lines, "core", &prim)?;
            let l = lines.remove(i);
            let at = open_section(&mut lines, if kind.ends_with("extra") { "extra_core" } else { "build" })?;
            lines.insert(at, l);
        }
        "move-secondary-to-core" | "move-secondary-to-build" => {
            let i = find_in(&lines, "extra_core", &sec)?;
            let l = lines.remove(i);
            let at = open_section(&mut lines, if kind.ends_with("core") { "core" } else { "build" })?;
            lines.insert(at, l);
        }
        "dup-primary" => {
            let i = find_in(&lines, "core", &prim)?;
            let l = lines[i].clone();
            lines.insert(i, l);
        }
        "dup-secondary" => {
            let i = find_in(&lines, "extra_core", &sec)?;
            let l = lines[i].clone();
            lines.insert(i, l);
        }
        "swap-major-minor" => {
            let a = find_in(&lines, "core", &["var(Major)"])?;
            let b = find_in(&lines, "core", &["var(Minor)"])?;
            lines.swap(a, b);
        }
        "patch-before-major" => {
            let a = find_in(&lines, "core", &["var(Major)"])?;
            let b = find_in(&lines, "core", &["var(Patch)"])?;
            lines.swap(a, b);
        }
        "swap-minor-patch" => {
            let a = find_in(&lines, "core", &["var(Minor)"])?;
            let b = find_in(&lines, "core", &["var(Patch)"])?;
            lines.swap(a, b);
        }
        "rotate-primaries" => {
            // [Major, Minor, Patch] -> [Minor, Patch, Major]
            let a = find_in(&lines, "core", &["var(Major)"])?;
            let c = find_in(&lines, "core", &["var(Patch)"])?;
            if c <= a {
                return None;
            }
            let l = lines.remove(a);
            lines.insert(c, l);
        }
        "dup-minor-only" => {
            let i = find_in(&lines, "core", &["var(Minor)"])?;
            let l = lines[i].clone();
            let (_, e) = section_bounds(&lines, "core")?;
            lines.insert(e, l);
        }
        "post-in-core" => {
            let (_, e) = section_bounds(&lines, "core")?;
            if e == 0 {
                return None;
            }
            let at = open_section(&mut lines, "core")?;
            let _ = e;
            lines.insert(at, format!("{comp_indent}var(Post),"));
        }
        "dev-in-build" => {
            let at = open_section(&mut lines, "build")?;
            lines.insert(at, format!("{comp_indent}var(Dev),"));
        }
        "major-last-in-build" => {
            let (s0, e) = section_bounds(&lines, "build")?;
            if s0 == e {
                let at = open_section(&mut lines, "build")?;
                lines.insert(at, format!("{comp_indent}var(Major),"));
            } else {
                lines.insert(e, format!("{comp_indent}var(Major),"));
            }
        }
        "unknown-ts" => {
            let at = open_section(&mut lines, "build")?;
            lines.insert(at, format!("{comp_indent}var(ts(\"QQ\")),"));
        }
        k if k.contains(':') && !k.contains("precedence") => {
            // <what>:<section> – one component inserted into the named section
            let (what, sec_name) = k.split_once(':')?;
            let comp = match what {
                "unknown-ts" => "var(ts(\"BOGUS\"))",
                "empty-ts" => "var(ts(\"\"))",
                "combined-ts" => "var(ts(\"YYYYMMDD\"))",
                "padded-ts" => "var(ts(\"YYYY \"))",
                "lower-ts" => "var(ts(\"yyyy\"))",
                "long-ts" => "var(ts(\"YYYYY\"))",
                "percent-ts" => "var(ts(\"%Q\"))",
                "dup-context" => "var(Distance)",
                "str-in" => "str(\"lit\")",
                "uint-in" => "uint(7)",
                "custom-in" => "var(custom(\"a.b\"))",
                _ => return None,
            };
            let at = open_section(&mut lines, sec_name)?;
            lines.insert(at, format!("{comp_indent}{comp},"));
            if what == "dup-context" {
                let (_, e) = section_bounds(&lines, sec_name)?;
                lines.insert(e, format!("{comp_indent}{comp},"));
            }
        }
        "empty-precedence" | "reverse-precedence" => {
            let (s0, e) = section_bounds(&lines, "precedence_order")?;
            if e > s0 {
                if kind == "empty-precedence" {
                    lines.drain(s0 + 1..e);
                } else {
                    lines[s0 + 1..e].reverse();
                }
            } else {
                return None;
            }
        }
        k if k.starts_with("drop-precedence:") || k.starts_with("dup-precedence:") => {
            let (what, name) = k.split_once(':')?;
            let (s0, e) = section_bounds(&lines, "precedence_order")?;
            let i = (s0 + 1..e).find(|&i| lines[i].trim() == format!("{name},"))?;
            if what == "drop-precedence" {
                lines.remove(i);
            } else {
                let l = lines[i].clone();
                lines.insert(i, l);
            }
        }
        "dup-primary-apart" => {
            // the duplicate is separated from the original by another component
            let i = find_in(&lines, "core", &prim)?;
            let l = lines[i].clone();
            let (_, e) = section_bounds(&lines, "core")?;
            lines.insert(e, format!("{comp_indent}str(\"sep\"),"));
            lines.insert(e + 1, l);
        }
        "dup-secondary-apart" => {
            let i = find_in(&lines, "extra_core", &sec)?;
            let l = lines[i].clone();
            let (_, e) = section_bounds(&lines, "extra_core")?;
            lines.insert(e, format!("{comp_indent}str(\"sep\"),"));
            lines.insert(e + 1, l);
        }
        "ts-in-core-ok" => {
            let at = open_section(&mut lines, "core")?;
            lines.insert(at, format!("{comp_indent}var(ts(\"YYYY\")),"));
        }
        "epoch-in-build" => {
            let at = open_section(&mut lines, "build")?;
            lines.insert(at, format!("{comp_indent}var(Epoch),"));
        }
        "empty-all" => {
            for name in ["core", "extra_core", "build"] {
                let (s, e) = section_bounds(&lines, name)?;
                if e > s {
                    lines.drain(s + 1..e);
                }
            }
        }
        "add-str-build" => {
            let at = open_section(&mut lines, "build")?;
            lines.insert(at, format!("{comp_indent}str(\"extra\"),"));
        }
        "dup-context" => {
            let i = find_in(&lines, "build", &ctx)?;
            let l = lines[i].clone();
            lines.insert(i, l);
        }
        _ => return None,
    }
    let mut s = lines.join("\n");
    s.push('\n');
    Some(s)
}

// ------------------------------------------------------------------------------------------
// execution

struct Pipe<'a> {
    ctx: &'a Ctx,
    rd: &'a RunDir,
    sc: &'a Scenario,
    repo: PathBuf,
}

impl<'a> Pipe<'a> {
    fn producer(&self, extra: &[&str], now: i64, stats: &mut Stats) -> Outcome {
        let mut args: Vec<String> = self.sc.argv.clone();
        if self.sc.kind == "git" {
            args.insert(1, self.repo.to_string_lossy().to_string());
            args.insert(1, "-C".into());
        }
        args.extend(extra.iter().map(|s| s.to_string()));
        let call = ZervCall {
            args: args.iter().map(OsString::from).collect(),
            cwd: PathBuf::from("/"),
            sim_now: now,
            env: vec![],
            unset: vec![],
            stdin: Stdin::Null,
            path: None,
            rm_cwd: false,
            stdout: crate::proc::Stdout::Capture,
            stderr: crate::proc::Stdout::Capture,
            exe: None,
            umask: None,
            cpus: None,
        };
        stats.bump("producer_processes");
        run_zerv(self.ctx, self.rd, &call, stats)
    }

    fn consumer(&self, data: &[u8], extra: &[&str], now: i64, stats: &mut Stats) -> Outcome {
        let mut args: Vec<String> = vec!["version".into(), "--source".into(), "stdin".into()];
        args.extend(extra.iter().map(|s| s.to_string()));
        let call = ZervCall {
            args: args.iter().map(OsString::from).collect(),
            cwd: PathBuf::from("/"),
            sim_now: now,
            env: vec![],
            unset: vec![],
            stdin: Stdin::Pipe { data: data.to_vec(), chunks: self.sc.chunks.clone() },
            path: None,
            rm_cwd: false,
            stdout: crate::proc::Stdout::Capture,
            stderr: crate::proc::Stdout::Capture,
            exe: None,
            umask: None,
            cpus: None,
        };
        stats.bump("consumer_processes");
        run_zerv(self.ctx, self.rd, &call, stats)
    }
}

fn clean_failure(o: &Outcome) -> Result<(), String> {
    match &o.status {
        Status::Exit(0) => Err("exit 0".into()),
        Status::Exit(101) => Err(format!("panic: {}", short(&o.err_str(), 300))),
        Status::Exit(_) => {
            if o.err_str().contains("panicked at") {
                Err(format!("panic: {}", short(&o.err_str(), 300)))
            } else if !o.stdout.is_empty() {
                Err(format!("non-empty stdout on failure: {:?}", short(&o.out_str(), 200)))
            } else if o.stderr.is_empty() {
                Err("no diagnostic".into())
            } else {
                Ok(())
            }
        }
        other => Err(format!("{other:?}")),
    }
}

fn mk(clause: &str, field: &str, exp: impl ToString, act: impl ToString, detail: impl ToString, narrow: &str) -> Violation {
    let mut v = Violation::new(PROP, clause, field, exp, act, detail);
    v.narrow = Some(narrow.to_string());
    v
}

fn wanted(sc: &Scenario, part: &str) -> bool {
    match &sc.only {
        None => true,
        Some(o) => o == part,
    }
}

pub fn execute(ctx: &Ctx, scv: &serde_json::Value, rd: &RunDir, stats: &mut Stats) -> HResult<Vec<Violation>> {
    let sc: Scenario = serde_json::from_value(scv.clone()).map_err(|e| HarnessError(format!("bad C12 scenario: {e}")))?;
    let repo = rd.repo();
    let mut world = None;
    if sc.kind == "git" {
        let mut w = World::create(&repo, &rd.home(), sc.actors.clone())?;
        for op in &sc.ops {
            if *op != Op::Observe {
                w.apply(op)?;
            }
        }
        world = Some(w);
    }
    rd.set_plan("");
    let p = Pipe { ctx, rd, sc: &sc, repo };
    let mut viol = vec![];
    let t0 = sc.sim_now;
    stats.time(t0);

    // ---- the producer's document
    let doc: Vec<u8> = if sc.kind == "doc" {
        // a literal document is first normalised by one hop so that it is "an object zerv can emit"
        let o = p.consumer(sc.doc.as_bytes(), &["--output-format", "zerv"], t0, stats);
        if !o.ok() {
            stats.bump("producer_failed");
            if let Err(e) = clean_failure(&o) {
                viol.push(mk("clean-failure", "producer", "clean failure", e, format!("doc={}", short(&sc.doc, 200)), "producer"));
            }
            return Ok(viol);
        }
        o.stdout
    } else {
        let o = p.producer(&["--output-format", "zerv"], t0, stats);
        if !o.ok() {
            stats.bump("producer_failed");
            if let Err(e) = clean_failure(&o) {
                viol.push(mk("clean-failure", "producer", "clean failure", e, format!("argv={:?}", sc.argv), "producer"));
            }
            return Ok(viol);
        }
        o.stdout
    };
    let doc_s = String::from_utf8_lossy(&doc).to_string();
    stats.bump("documents");
    stats.event(format!("producer kind={} argv={:?} now={t0} doc={}", sc.kind, sc.argv, short(&norm(ctx, &doc_s), 3000)));
    let parsed = zron::parse(&doc_s);
    let dirty = parsed.as_ref().map(|d| d.vars.dirty == Some(true)).unwrap_or(false);
    let nondefault = parsed
        .as_ref()
        .map(|d| d.vars.bumped_branch.is_some() || d.vars.custom != ron::Value::Unit || d.vars.distance.unwrap_or(0) > 0 || d.vars.pre_release.is_some())
        .unwrap_or(false);

    // ---- oracle 5: every emitted object satisfies the placement rules
    if wanted(&sc, "placement") {
        match &parsed {
            Ok(d) => {
                let errs = d.schema.placement_errors();
                stats.bump("placement_validated");
                if !errs.is_empty() {
                    viol.push(mk("emitted-placement", "schema", "no placement error", format!("{errs:?}"), short(&doc_s, 1500), "placement"));
                }
            }
            Err(e) => viol.push(mk("emitted-parse", "ron", "document readable by an independent RON reader", e, short(&doc_s, 1500), "placement")),
        }
    }

    let finals: Vec<(String, Vec<String>)> = {
        let mut f: Vec<(String, Vec<String>)> = vec![
            ("semver".into(), vec!["--output-format".into(), "semver".into()]),
            ("pep440".into(), vec!["--output-format".into(), "pep440".into()]),
        ];
        for t in &sc.templates {
            f.push((format!("template:{t}"), vec!["--output-template".into(), t.clone()]));
        }
        f
    };

    // ---- oracles 1 and 2: fault-free transport, frozen / advanced clock
    for (cfg, dt) in [("frozen", 0i64), ("advanced", sc.delta)] {
        let part = format!("lossless:{cfg}");
        if !wanted(&sc, &part) {
            continue;
        }
        let mut cur = doc.clone();
        let mut now = t0;
        let mut broken = false;
        for hop in 0..sc.hops {
            now = (now + dt).min(4_294_967_295);
            stats.time(now);
            let o = p.consumer(&cur, &["--output-format", "zerv"], now, stats);
            stats.bump(&format!("hops_{cfg}"));
            stats.event(format!("{cfg} hop {hop} now={now} -> {} identical={}", o.status_str(), o.stdout == doc));
            if !o.ok() {
                viol.push(mk("reparse", cfg, "zerv accepts its own output", format!("{} {}", o.status_str(), short(&o.err_str(), 300)), format!("hop {hop}; doc={}", short(&doc_s, 1200)), &part));
                broken = true;
                break;
            }
            if o.stdout != doc {
                let a = String::from_utf8_lossy(&o.stdout).to_string();
                let diff: Vec<String> = doc_s.lines().zip(a.lines()).filter(|(x, y)| x != y).take(4).map(|(x, y)| format!("{} => {}", x.trim(), y.trim())).collect();
                let field = if dirty && dt > 0 && diff.iter().all(|d| d.contains("bumped_timestamp")) && !diff.is_empty() { "dirty-restamped" } else { cfg };
                viol.push(mk(
                    "byte-identical-reemit",
                    field,
                    short(&doc_s, 600),
                    short(&a, 600),
                    format!("hop {hop}, clock +{dt}s per hop, dirty={dirty}; differing lines: {diff:?}"),
                    &part,
                ));
                broken = true;
                break;
            }
            cur = o.stdout;
        }
        if broken {
            continue;
        }
        if nondefault {
            stats.distinct_key(&format!("{:016x}|none|{cfg}", crate::rng::fnv(&doc_s)));
        }
        // final renderings through the pipe == direct renderings
        if sc.kind != "doc" {
            for (name, extra) in &finals {
                let ex: Vec<&str> = extra.iter().map(|s| s.as_str()).collect();
                let direct = p.producer(&ex, t0, stats);
                let piped = p.consumer(&cur, &ex, now, stats);
                stats.bump(&format!("final_renderings_{cfg}"));
                stats.event(format!("{cfg} final {name}: direct {} {:?} piped {} {:?}", direct.status_str(), short(&direct.out_str(), 200), piped.status_str(), short(&piped.out_str(), 200)));
                if direct.stdout != piped.stdout || direct.ok() != piped.ok() {
                    let field = cfg.to_string();
                    viol.push(mk(
                        "piped-equals-direct",
                        &field,
                        format!("direct: {} {:?}", direct.status_str(), short(&direct.out_str(), 400)),
                        format!("piped: {} {:?} {}", piped.status_str(), short(&piped.out_str(), 400), short(&piped.err_str(), 200)),
                        format!("rendering {name}; producer at {t0}, consumer at {now}; dirty={dirty}; argv={:?}", sc.argv),
                        &part,
                    ));
                    break;
                }
            }
        }
    }

    // ---- oracles 3 and 4: damaged transport (one fault per delivery)
    let intact_semver = p.consumer(&doc, &["--output-format", "semver"], t0, stats);
    let body_len = doc_s.trim_end().len();
    for (fi, f) in sc.faults.iter().enumerate() {
        let part = format!("fault:{fi}");
        if !wanted(&sc, &part) {
            continue;
        }
        let n = doc.len();
        if n == 0 {
            break;
        }
        match f {
            Fault::Truncate(k) => {
                let cut = match *k {
                    1_000_001 => n - 1,
                    1_000_002 => n.saturating_sub(2),
                    k => k % n,
                };
                let o = p.consumer(&doc[..cut], &["--output-format", "semver"], t0, stats);
                stats.bump("fault.truncate");
                stats.distinct_key(&format!("{:016x}|truncate|{}", crate::rng::fnv(&doc_s), if cut >= body_len { "ws" } else { "body" }));
                let only_ws_cut = cut >= body_len;
                let ok_same = o.ok() && o.stdout == intact_semver.stdout && intact_semver.ok();
                let acceptable = if only_ws_cut { ok_same || clean_failure(&o).is_ok() } else { clean_failure(&o).is_ok() };
                stats.event(format!("truncate@{cut}/{n} -> {} {:?}", o.status_str(), short(&o.out_str(), 100)));
                if !acceptable {
                    viol.push(mk(
                        "truncated-document",
                        "truncate",
                        "clean failure (or the intact result when only trailing whitespace was cut)",
                        format!("{} stdout={:?} stderr={:?}", o.status_str(), short(&o.out_str(), 200), short(&o.err_str(), 200)),
                        format!("cut at byte {cut} of {n}; intact result {:?}", short(&intact_semver.out_str(), 100)),
                        &part,
                    ));
                }
            }
            Fault::BitFlip(..) | Fault::DropChunk(..) | Fault::DupChunk(..) | Fault::Rewrite(_) | Fault::Rewrite2(..) | Fault::Junk(..) => {
                let (damaged, label): (Vec<u8>, String) = match f {
                    Fault::BitFlip(pos, bit) => {
                        let mut d = doc.clone();
                        let i = pos % n;
                        d[i] ^= 1 << bit;
                        (d, "bitflip".into())
                    }
                    Fault::DropChunk(pos, len) => {
                        let i = pos % n;
                        let e = (i + len).min(n);
                        let mut d = doc[..i].to_vec();
                        d.extend_from_slice(&doc[e..]);
                        (d, "drop".into())
                    }
                    Fault::DupChunk(pos, len) => {
                        let i = pos % n;
                        let e = (i + len).min(n);
                        let mut d = doc[..e].to_vec();
                        d.extend_from_slice(&doc[i..]);
                        (d, "dup".into())
                    }
                    Fault::Junk(after, junk) => {
                        let mut d = vec![];
                        let j: Vec<u8> = if junk == "<<DOC>>" { doc.clone() } else { junk.as_bytes().to_vec() };
                        if *after {
                            d.extend_from_slice(&doc);
                            d.extend_from_slice(&j);
                        } else {
                            d.extend_from_slice(&j);
                            d.extend_from_slice(&doc);
                        }
                        (d, format!("junk:{}:{}", if *after { "after" } else { "before" }, junk.escape_default()))
                    }
                    Fault::Rewrite2(k1, k2) => match rewrite(&doc_s, k1).and_then(|d1| rewrite(&d1, k2)) {
                        Some(s) => (s.into_bytes(), format!("rewrite:{k1}+{k2}")),
                        None => {
                            stats.bump("rewrite_not_applicable");
                            continue;
                        }
                    },
                    Fault::Rewrite(kind) => match rewrite(&doc_s, kind) {
                        Some(s) => (s.into_bytes(), format!("rewrite:{kind}")),
                        None => {
                            stats.bump("rewrite_not_applicable");
                            continue;
                        }
                    },
                    _ => unreachable!(),
                };
                if damaged == doc {
                    continue;
                }
                stats.bump(&format!("fault.{}", label.split(':').next().unwrap_or("")));
                if label.starts_with("rewrite:") && !label.contains('+') {
                    stats.bump(&format!("fault.{label}"));
                } else if label.contains('+') {
                    stats.bump("fault.rewrite-pair");
                }
                let dmg_s = String::from_utf8_lossy(&damaged).to_string();
                let o = p.consumer(&damaged, &["--output-format", "zerv"], t0, stats);
                stats.distinct_key(&format!("{:016x}|{label}|{}", crate::rng::fnv(&doc_s), if o.ok() { "accepted" } else { "refused" }));
                stats.event(format!("{label} -> {} err={}", o.status_str(), short(&o.err_str(), 160)));
                // what an independent reader says about the damaged document
                let indep = zron::parse(&dmg_s);
                let generic_ok = ron::from_str::<ron::Value>(&dmg_s).is_ok();
                let must_refuse: Option<String> = match &indep {
                    Ok(d) => {
                        let errs = d.schema.placement_errors();
                        if errs.is_empty() { None } else { Some(format!("placement: {errs:?}")) }
                    }
                    Err(e) => {
                        if label.starts_with("junk:") && std::str::from_utf8(&damaged).is_ok() {
                            // the document part is intact, so the independent reader's refusal can only be
                            // about the added text: not valid RON as a whole
                            Some(format!("not valid RON: {e}"))
                        } else if !generic_ok && std::str::from_utf8(&damaged).is_ok() && label.starts_with("rewrite") {
                            Some(format!("not valid RON: {e}"))
                        } else {
                            None
                        }
                    }
                };
                if o.ok() {
                    stats.bump("damaged_accepted");
                    if let Some(why) = must_refuse {
                        viol.push(mk(
                            "invalid-refused",
                            &label,
                            format!("rejected with an error ({why})"),
                            format!("accepted; re-emitted {}", short(&o.out_str(), 500)),
                            format!("damaged document: {}", short(&dmg_s, 1500)),
                            &part,
                        ));
                        continue;
                    }
                    // accepted: the result must itself be a valid, stable object
                    let out_s = o.out_str();
                    match zron::parse(&out_s) {
                        Ok(d2) => {
                            let errs = d2.schema.placement_errors();
                            if !errs.is_empty() {
                                viol.push(mk("accepted-damaged-placement", &label, "no placement error", format!("{errs:?}"), short(&out_s, 1200), &part));
                                continue;
                            }
                        }
                        Err(e) => {
                            viol.push(mk("accepted-damaged-parse", &label, "readable RON", e, short(&out_s, 1200), &part));
                            continue;
                        }
                    }
                    let o2 = p.consumer(&o.stdout, &["--output-format", "zerv"], t0, stats);
                    if !o2.ok() || o2.stdout != o.stdout {
                        viol.push(mk(
                            "accepted-damaged-fixed-point",
                            &label,
                            short(&out_s, 500),
                            format!("{} {}", o2.status_str(), short(&o2.out_str(), 500)),
                            format!("damaged document: {}", short(&dmg_s, 800)),
                            &part,
                        ));
                    }
                } else {
                    stats.bump("damaged_refused");
                    if let Err(e) = clean_failure(&o) {
                        viol.push(mk("clean-failure", &label, "clean failure", e, format!("damaged document: {}", short(&dmg_s, 800)), &part));
                    }
                }
            }
        }
    }
    if let Some(w) = &world {
        stats.git_spawns += w.nspawn;
    }
    if stats.samples.is_empty() {
        stats.samples.push(serde_json::json!({"kind": sc.kind, "argv": sc.argv, "hops": sc.hops, "delta": sc.delta, "chunks": sc.chunks, "document": short(&doc_s, 1200), "faults": sc.faults.len()}));
    }
    Ok(viol)
}

pub fn shrink(scv: &serde_json::Value) -> Vec<serde_json::Value> {
    let Ok(sc) = serde_json::from_value::<Scenario>(scv.clone()) else { return vec![] };
    let mut out: Vec<Scenario> = vec![];
    if let Some(o) = &sc.only {
        if let Some(fi) = o.strip_prefix("fault:").and_then(|s| s.parse::<usize>().ok()) {
            if sc.faults.len() > 1 && fi < sc.faults.len() {
                let mut s = sc.clone();
                s.faults = vec![sc.faults[fi].clone()];
                s.only = Some("fault:0".into());
                out.push(s);
            }
        } else if !sc.faults.is_empty() {
            let mut s = sc.clone();
            s.faults.clear();
            out.push(s);
        }
    }
    if sc.hops > 1 {
        let mut s = sc.clone();
        s.hops = 1;
        out.push(s);
    }
    if !sc.chunks.is_empty() {
        let mut s = sc.clone();
        s.chunks.clear();
        out.push(s);
    }
    if sc.templates.len() > 1 {
        for i in 0..sc.templates.len() {
            let mut s = sc.clone();
            s.templates.remove(i);
            out.push(s);
        }
    }
    let n = sc.ops.len();
    let mut chunk = n;
    while chunk >= 1 {
        let mut i = 0;
        while i < n {
            let mut s = sc.clone();
            s.ops.drain(i..(i + chunk).min(n));
            out.push(s);
            i += chunk;
        }
        chunk /= 2;
    }
    // drop producer arguments (never the sub-command, `--source none` or the tag)
    let mut i = 1;
    while i < sc.argv.len() {
        let a = &sc.argv[i];
        let takes_value = a.starts_with("--") && !a.contains('=') && i + 1 < sc.argv.len() && !sc.argv[i + 1].starts_with("--");
        if a == "--source" || a == "--tag-version" {
            i += 2;
            continue;
        }
        let mut s = sc.clone();
        if takes_value {
            s.argv.drain(i..i + 2);
        } else {
            s.argv.remove(i);
        }
        out.push(s);
        i += if takes_value { 2 } else { 1 };
    }
    if sc.delta != 1 {
        let mut s = sc.clone();
        s.delta = 1;
        out.push(s);
    }
    out.into_iter().map(|s| serde_json::to_value(s).unwrap()).collect()
}

#[allow(dead_code)]
fn _unused(_: &Path) {}
