//! One integer decides everything: splitmix64 seeding + xoshiro256** stream.
//! Own implementation so that streams never depend on a crate version.

#[derive(Clone, Debug)]
pub struct Rng {
    s: [u64; 4],
}

pub fn splitmix64(x: &mut u64) -> u64 {
    *x = x.wrapping_add(0x9E3779B97F4A7C15);
    let mut z = *x;
    z = (z ^ (z >> 30)).wrapping_mul(0xBF58476D1CE4E5B9);
    z = (z ^ (z >> 27)).wrapping_mul(0x94D049BB133111EB);
    z ^ (z >> 31)
}

pub fn fnv(s: &str) -> u64 {
    let mut h: u64 = 0xcbf29ce484222325;
    for b in s.bytes() {
        h ^= b as u64;
        h = h.wrapping_mul(0x100000001b3);
    }
    h
}

impl Rng {
    pub fn new(seed: u64) -> Rng {
        let mut x = seed;
        let s = [splitmix64(&mut x), splitmix64(&mut x), splitmix64(&mut x), splitmix64(&mut x)];
        Rng { s }
    }
    /// stream for run `i` of property `p` under `seed`
    pub fn for_run(seed: u64, p: &str, i: u64) -> Rng {
        let mut x = seed ^ fnv(p) ^ i.wrapping_mul(0xD1342543DE82EF95);
        Rng::new(splitmix64(&mut x))
    }
    pub fn next(&mut self) -> u64 {
        let r = self.s[1].wrapping_mul(5).rotate_left(7).wrapping_mul(9);
        let t = self.s[1] << 17;
        self.s[2] ^= self.s[0];
        self.s[3] ^= self.s[1];
        self.s[1] ^= self.s[2];
        self.s[0] ^= self.s[3];
        self.s[2] ^= t;
        self.s[3] = self.s[3].rotate_left(45);
        r
    }
    /// uniform in [0, n)
    pub fn below(&mut self, n: u64) -> u64 {
        if n == 0 {
            return 0;
        }
        self.next() % n
    }
    pub fn range(&mut self, lo: i64, hi: i64) -> i64 {
        lo + self.below((hi - lo + 1) as u64) as i64
    }
    pub fn chance(&mut self, num: u64, den: u64) -> bool {
        self.below(den) < num
    }
    pub fn pick<'a, T>(&mut self, v: &'a [T]) -> &'a T {
        &v[self.below(v.len() as u64) as usize]
    }
    pub fn weighted(&mut self, w: &[u32]) -> usize {
        let total: u64 = w.iter().map(|&x| x as u64).sum();
        let mut r = self.below(total.max(1));
        for (i, &x) in w.iter().enumerate() {
            if r < x as u64 {
                return i;
            }
            r -= x as u64;
        }
        w.len() - 1
    }
    /// geometric-ish length in [lo, hi] with mean around `mean`
    pub fn geometric(&mut self, lo: u64, hi: u64, mean: u64) -> u64 {
        let mut n = lo;
        while n < hi && !self.chance(1, mean.max(1)) {
            n += 1;
        }
        n
    }
    pub fn shuffle<T>(&mut self, v: &mut [T]) {
        for i in (1..v.len()).rev() {
            let j = self.below(i as u64 + 1) as usize;
            v.swap(i, j);
        }
    }
}
