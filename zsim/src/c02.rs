//! C02 – git state extraction is faithful to the repository history.
//! History simulation (real git, real zerv) judged against the reference model of world.rs.

use crate::names;
use crate::rng::Rng;
use crate::sim::*;
use crate::ver;
use crate::world::*;
use crate::zron;
use serde::{Deserialize, Serialize};
use std::cmp::Ordering;
use std::collections::BTreeSet;

pub const PROP: &str = "C02";

#[derive(Serialize, Deserialize, Clone, Debug)]
pub struct Scenario {
    pub actors: Vec<Actor>,
    pub ops: Vec<Op>,
    pub fmt: String,
    /// benign proxy perturbations used for the perturbed re-observation
    pub benign: Vec<(String, u64)>,
    /// zerv's wall clock
    pub sim_now: i64,
    /// 0: `-C <abs repo>` from `/`; 1: cwd = repo root, no -C; 2: cwd = sub-directory, no -C
    pub cwd_mode: u8,
    pub skeleton: String,
}

// ------------------------------------------------------------------------------------------
// generation

pub struct GenCfg {
    pub max_ops: u64,
    pub mean_ops: u64,
}

fn gen_dt(r: &mut Rng) -> i64 {
    match r.below(10) {
        0..=2 => 0,
        3..=5 => r.range(1, 3600),
        6 => r.range(3600, 86400 * 400),
        7 => -r.range(1, 3600),
        8 => -r.range(3600, 86400 * 30),
        _ => r.range(1, 60),
    }
}

pub fn gen_actors(r: &mut Rng) -> Vec<Actor> {
    let n = 1 + r.below(3) as usize;
    let base = match r.below(8) {
        0 => r.range(2_147_000_000, 2_148_000_000), // around 2^31
        1 => r.range(2_200_000_000, 3_800_000_000), // beyond 2038
        _ => r.range(978_307_200, 2_145_916_800),
    };
    let tzs = ["+0000", "+0530", "-1100", "+1400", "-0800", "+0100", "+0545", "-0330"];
    (0..n)
        .map(|i| Actor {
            clock: if i == 0 { base } else { base + r.range(-86400 * 3, 86400 * 3) },
            tz: r.pick(&tzs).to_string(),
        })
        .collect()
}

struct Swarm {
    w: [u32; 17],
    tag_w: [u32; 4],
    kind_w: [u32; 3],
    branch_classes: u32,
    nact: usize,
}

fn gen_swarm(r: &mut Rng, nact: usize) -> Swarm {
    // commit branch checkout detach merge ff tag deltag delbranch reset amend dirty clean pack gc orphan treetag
    let base: [u32; 17] = [30, 10, 10, 4, 8, 3, 22, 3, 2, 4, 3, 8, 2, 2, 1, 1, 1];
    let mut w = base;
    for x in w.iter_mut().skip(1) {
        *x *= match r.below(4) {
            0 => 0,
            1 => 1,
            2 => 2,
            _ => 3,
        };
    }
    let tag_w = match r.below(5) {
        0 => [10, 0, 0, 0],
        1 => [5, 3, 3, 3],
        2 => [2, 4, 4, 1],
        3 => [4, 1, 1, 6],
        _ => [6, 2, 2, 2],
    };
    let kind_w = *r.pick(&[[6, 3, 1], [1, 0, 0], [1, 4, 1], [3, 3, 3]]);
    let branch_classes = *r.pick(&[1u32, 16, 1 | 16, 1 | 2 | 16, 1 | 4, 31, 2 | 4 | 8]);
    Swarm { w, tag_w, kind_w, branch_classes, nact }
}

fn gen_tag_op(r: &mut Rng, sw: &Swarm) -> Op {
    let (name, _, _) = names::tag_name(r, &sw.tag_w);
    let kind = [TagKind::Light, TagKind::Annot, TagKind::Nested][r.weighted(&sw.kind_w)];
    let target = if r.chance(1, 4) { Some(r.below(64) as usize) } else { None };
    Op::Tag { name, kind, target, actor: r.below(sw.nact as u64) as usize, dt: gen_dt(r) }
}

fn gen_op(r: &mut Rng, sw: &Swarm) -> Op {
    let a = r.below(sw.nact as u64) as usize;
    match r.weighted(&sw.w) {
        0 => Op::Commit { actor: a, dt: gen_dt(r), adt: if r.chance(1, 5) { r.range(-5000, 50000) } else { 0 }, with_file: r.chance(1, 2) },
        1 => Op::Branch { name: names::branch_name(r, sw.branch_classes), from: if r.chance(1, 3) { Some(r.below(64) as usize) } else { None } },
        2 => Op::Checkout { branch: r.below(16) as usize },
        3 => Op::Detach { commit: r.below(64) as usize },
        4 => {
            let n = if r.chance(1, 6) { 2 } else { 1 };
            Op::Merge { others: (0..n).map(|_| r.below(16) as usize).collect(), actor: a, dt: gen_dt(r) }
        }
        5 => Op::FastForward { branch: r.below(16) as usize },
        6 => gen_tag_op(r, sw),
        7 => Op::DeleteTag { tag: r.below(16) as usize },
        8 => Op::DeleteBranch { branch: r.below(16) as usize },
        9 => Op::ResetHard { commit: r.below(64) as usize },
        10 => Op::Amend { actor: a, dt: gen_dt(r), adt: r.range(0, 100000) },
        11 => Op::Dirty { kind: *r.pick(&DirtyKind::ALL) },
        12 => Op::Clean,
        13 => Op::PackRefs,
        14 => Op::Gc,
        15 => Op::Orphan { name: names::branch_name(r, sw.branch_classes), actor: a, dt: gen_dt(r) },
        _ => {
            let (name, _, _) = names::tag_name(r, &[6, 1, 1, 1]);
            Op::TagTree { name, commit: r.below(64) as usize }
        }
    }
}

fn c(dt: i64) -> Op {
    Op::Commit { actor: 0, dt, adt: 0, with_file: false }
}
fn cf(dt: i64) -> Op {
    Op::Commit { actor: 0, dt, adt: 0, with_file: true }
}
fn t(name: &str) -> Op {
    Op::Tag { name: name.into(), kind: TagKind::Light, target: None, actor: 0, dt: 0 }
}
fn ta(name: &str) -> Op {
    Op::Tag { name: name.into(), kind: TagKind::Annot, target: None, actor: 0, dt: 5 }
}
fn tn(name: &str) -> Op {
    Op::Tag { name: name.into(), kind: TagKind::Nested, target: None, actor: 0, dt: 7 }
}
fn tat(name: &str, target: usize) -> Op {
    Op::Tag { name: name.into(), kind: TagKind::Light, target: Some(target), actor: 0, dt: 0 }
}
fn br(name: &str) -> Op {
    Op::Branch { name: name.into(), from: None }
}
fn co(i: usize) -> Op {
    Op::Checkout { branch: i }
}
fn mg(i: usize) -> Op {
    Op::Merge { others: vec![i], actor: 0, dt: 10 }
}

/// Directed skeletons (DESIGN.md §3.2 "Swarm"): shapes on which a plausible but wrong
/// extraction algorithm differs from the right one.  Branch indices: 0 = main.
pub fn skeletons() -> Vec<(&'static str, Vec<Op>)> {
    vec![
        ("merge-tags-both-parents", vec![c(10), t("v1.0.0"), br("b"), c(10), co(1), c(10), t("v1.1.0"), co(0), c(10), t("v1.2.0"), mg(1)]),
        // X tagged; Y child of X tagged, but dated *before* X; M merges P1 (child of X) and Y
        ("skewed-diamond", vec![c(100000), t("v1.0.0"), br("b"), cf(50), co(1), c(-90000), t("v1.1.0"), co(0), mg(1)]),
        ("skewed-diamond-rev", vec![c(100000), t("v1.1.0"), br("b"), cf(50), co(1), c(-90000), t("v1.0.0"), co(0), mg(1)]),
        ("nearer-tag-lower", vec![c(10), t("v2.0.0"), c(10), c(10), t("v1.0.0"), c(10)]),
        ("higher-tag-unreachable", vec![c(10), t("v1.0.0"), br("b"), co(1), c(10), t("v9.0.0"), co(0), c(10)]),
        ("head-behind-tag", vec![c(10), t("v1.0.0"), c(10), c(10), t("v2.0.0"), Op::ResetHard { commit: 0 }]),
        ("head-detached-behind", vec![c(10), t("v1.0.0"), c(10), t("v2.0.0"), c(10), Op::Detach { commit: 0 }]),
        ("several-tags-one-commit", vec![c(10), t("v1.0.0"), t("v1.0.1"), t("v1.1.0-rc.1"), t("v1.0.10"), t("v1.0.9"), c(10)]),
        ("mixed-formats-one-commit", vec![c(10), t("1.0.0"), t("1.0.0rc1"), t("2.0a1"), t("1.5.0-x.y"), t("latest"), c(10)]),
        ("pre-vs-post-reading", vec![c(10), t("1.0.0-1"), t("1.0.0"), c(10)]),
        ("nonversion-only-nearest", vec![c(10), t("v1.0.0"), c(10), t("latest"), t("build-7"), c(10)]),
        ("criss-cross", vec![c(10), t("v0.1.0"), br("b"), cf(10), br("tmp"), co(1), cf(10), co(0), mg(1), t("v0.2.0"), co(1), Op::Merge { others: vec![2], actor: 0, dt: 5 }, t("v0.1.5"), co(0), mg(1)]),
        ("tag-equals-branch-name", vec![c(10), t("v1.0.0"), br("v1.0.0"), c(10), co(1), c(10)]),
        ("unborn", vec![]),
        ("unborn-with-noise", vec![br("x"), t("v1.0.0"), Op::Dirty { kind: DirtyKind::Untracked }]),
        ("no-valid-tag", vec![c(10), t("latest"), c(10), t("build-3"), c(10)]),
        ("no-tag-at-all", vec![c(10), c(10), br("b"), c(10)]),
        ("equal-precedence", vec![c(10), t("v1.0.0"), t("1.0.0"), t("1.0.0+build.5"), c(10)]),
        ("annotated-and-nested", vec![c(10), ta("v1.0.0"), c(10), tn("v1.1.0"), c(10), ta("v1.2.0"), t("v1.2.0-rc.1"), c(3)]),
        ("amend-leaves-tag-behind", vec![c(10), t("v1.0.0"), c(10), t("v3.0.0"), Op::Amend { actor: 0, dt: 100, adt: 50 }, c(10)]),
        ("semver-only-tag-nearest", vec![c(10), t("1.0.0"), c(10), t("2.0.0-x.y"), c(10)]),
        ("pep-only-tag-nearest", vec![c(10), t("1.0.0"), c(10), t("2.0.0rc1"), c(10)]),
        ("tag-on-second-parent", vec![c(10), br("b"), c(10), c(10), co(1), cf(10), t("v1.0.0"), cf(10), co(0), mg(1), c(10)]),
        ("octopus", vec![c(10), t("v1.0.0"), br("a"), br("b"), co(1), cf(10), t("v1.1.0"), co(2), cf(10), t("v1.0.5"), co(0), cf(10), Op::Merge { others: vec![1, 2], actor: 0, dt: 10 }]),
        ("deleted-branch-keeps-tag", vec![c(10), t("v1.0.0"), br("b"), co(1), c(10), t("v5.0.0"), co(0), Op::DeleteBranch { branch: 1 }, c(10)]),
        ("detached-at-tag", vec![c(10), t("v1.0.0"), c(10), ta("v1.1.0"), c(10), Op::Detach { commit: 1 }]),
        ("tag-old-commit-later", vec![c(10), c(10), c(10), tat("v1.0.0", 0), tat("v1.1.0", 1), c(10)]),
        ("ff-merge", vec![c(10), t("v1.0.0"), br("b"), co(1), c(10), t("v1.1.0"), c(10), co(0), Op::FastForward { branch: 1 }]),
        ("equal-timestamps-fork", vec![c(0), t("v1.0.0"), br("b"), c(0), t("v1.0.1"), co(1), c(0), t("v1.0.2"), co(0), Op::Merge { others: vec![1], actor: 0, dt: 0 }]),
        ("packed-refs", vec![c(10), ta("v1.0.0"), t("v1.0.1"), c(10), Op::PackRefs, c(10), t("v1.1.0"), c(10)]),
        ("epoch-and-short-release", vec![c(10), t("1!1.0.0"), t("9.9.9"), c(10), t("2.1"), c(1)]),
        ("unrelated-histories-merged", vec![c(10), t("v1.0.0"), cf(10), Op::Orphan { name: "imported".into(), actor: 0, dt: 5 }, cf(5), t("v0.5.0"), cf(5), co(0), mg(1), c(5)]),
        ("orphan-only-tag-on-other-root", vec![c(10), t("v3.0.0"), Op::Orphan { name: "docs".into(), actor: 0, dt: 5 }, c(5), c(5)]),
        ("version-named-tree-tag", vec![c(10), t("v1.0.0"), c(10), Op::TagTree { name: "v9.9.9".into(), commit: 1 }, c(10)]),
        ("many-tagged-commits", vec![c(1), t("v0.0.1"), c(1), t("v0.0.2"), c(1), t("v0.0.3"), c(1), t("v0.0.4"), c(1), t("v0.0.5"), c(1), t("v0.0.6"), c(1)]),
    ]
}

/// A seeded history: actors and operations (directed skeleton + mutation, or free-form).
pub fn gen_history(r: &mut Rng, mean_ops: u64, max_ops: u64) -> (Vec<Actor>, Vec<Op>, String) {
    gen_history_with(r, mean_ops, max_ops, true)
}

/// `allow_long = false` for engines that run hundreds of children per world (a 1 000-commit history
/// with 150 tagged commits makes every child cost hundreds of git processes)
pub fn gen_history_with(r: &mut Rng, mean_ops: u64, max_ops: u64, allow_long: bool) -> (Vec<Actor>, Vec<Op>, String) {
    let actors = gen_actors(r);
    let sw = gen_swarm(r, actors.len());
    let mut ops: Vec<Op> = vec![];
    let mut skeleton = String::from("random");
    if r.chance(1, 3) {
        let sk = skeletons();
        let (name, sops) = &sk[r.below(sk.len() as u64) as usize];
        skeleton = name.to_string();
        ops = sops.clone();
        // mutate: drop one op sometimes, randomise tag kinds sometimes, append a few random ops
        if r.chance(1, 4) && !ops.is_empty() {
            let i = r.below(ops.len() as u64) as usize;
            ops.remove(i);
        }
        if r.chance(1, 3) {
            for o in ops.iter_mut() {
                if let Op::Tag { kind, .. } = o {
                    *kind = [TagKind::Light, TagKind::Annot, TagKind::Nested][r.below(3) as usize];
                }
            }
        }
        let extra = r.geometric(0, max_ops.min(8), 3);
        for _ in 0..extra {
            ops.push(gen_op(r, &sw));
        }
    } else {
        let n = r.geometric(1, max_ops, mean_ops);
        if r.chance(9, 10) {
            ops.push(Op::Commit { actor: 0, dt: gen_dt(r), adt: 0, with_file: false });
        }
        if r.chance(2, 3) {
            if r.chance(2, 3) {
                let (name, _, _) = names::tag_name(r, &[1, 0, 0, 0]);
                ops.push(Op::Tag { name, kind: [TagKind::Light, TagKind::Annot][r.below(2) as usize], target: None, actor: 0, dt: 0 });
            } else {
                ops.push(gen_tag_op(r, &sw));
            }
        }
        for _ in 0..n {
            ops.push(gen_op(r, &sw));
        }
    }
    // now and then a long history: a couple of hundred commits, a tag every few commits, a side line
    // merged back now and then (limits, buffers, quadratic shortcuts only show at this size)
    if r.chance(1, 30) && allow_long {
        let flavour = r.below(3);
        // some are *very* long (beyond any page or buffer of a thousand entries): one in ten, and half
        // of those whose point is the long untagged stretch
        let very = if flavour == 2 { r.chance(1, 2) } else { r.chance(1, 10) };
        let n = if very { 1050 + r.below(300) } else if flavour == 1 { 160 + r.below(200) } else { 80 + r.below(160) };
        let mut long: Vec<Op> = vec![Op::Commit { actor: 0, dt: 1, adt: 0, with_file: false }, Op::Branch { name: "side-line".into(), from: None }];
        // three flavours: version tags all along; one version tag at the very beginning and only
        // non-version tags after it (every tagged commit has to be visited); one long untagged stretch that
        // is merged into a side line carrying the nearest tag
        let mut minor = 0u64;
        if flavour == 2 {
            long.push(Op::Tag { name: "v1.0.0".into(), kind: TagKind::Light, target: None, actor: 0, dt: 0 });
            for _ in 0..n {
                long.push(Op::Commit { actor: 0, dt: r.range(0, 50), adt: 0, with_file: false });
            }
            long.push(Op::CheckoutNewest);
            long.push(Op::Commit { actor: 0, dt: 1, adt: 0, with_file: false });
            long.push(Op::Tag { name: "v1.0.1".into(), kind: TagKind::Annot, target: None, actor: 0, dt: 1 });
            long.push(Op::Merge { others: vec![0], actor: 0, dt: 1 });
        } else {
            for i in 0..n {
                long.push(Op::Commit { actor: 0, dt: r.range(0, 50), adt: 0, with_file: false });
                if (flavour == 0 && i % 7 == 3) || (flavour == 1 && i % 3 == 1) {
                    minor += 1;
                    let name = if flavour == 0 || minor == 1 { format!("v0.{minor}.0") } else { format!("snapshot-{minor}") };
                    long.push(Op::Tag { name, kind: if i % 3 == 0 { TagKind::Annot } else { TagKind::Light }, target: None, actor: 0, dt: 0 });
                }
                if i % 11 == 5 {
                    long.push(Op::Tag { name: format!("build-{i}"), kind: TagKind::Light, target: None, actor: 0, dt: 0 });
                }
                if i % 29 == 17 {
                    long.push(Op::CheckoutNewest);
                    long.push(Op::Commit { actor: 0, dt: 1, adt: 0, with_file: false });
                    long.push(Op::Checkout { branch: 0 });
                    long.push(Op::Merge { others: vec![1], actor: 0, dt: 1 });
                }
            }
        }
        long.extend(ops);
        ops = long;
        skeleton = format!("long-history+{skeleton}");
    }
    // a burst of sibling tags (same X.Y.Z, different suffixes) on whatever commit HEAD is then
    if r.chance(1, 4) {
        let at = r.below(ops.len() as u64 + 1) as usize;
        for (i, name) in names::sibling_tags(r).into_iter().enumerate() {
            let kind = if r.chance(1, 4) { TagKind::Annot } else { TagKind::Light };
            ops.insert((at + i).min(ops.len()), Op::Tag { name, kind, target: None, actor: 0, dt: 0 });
        }
        if skeleton == "random" {
            skeleton = "random+siblings".into();
        }
    }
    (actors, ops, skeleton)
}

pub fn generate(r: &mut Rng, _tier: Tier, _group: u64) -> serde_json::Value {
    let (actors, mut ops, skeleton) = gen_history(r, 8, 25);
    // observation points: up to 3 inside the history, the final state is always observed
    let nobs = r.below(4);
    for _ in 0..nobs {
        if ops.is_empty() {
            break;
        }
        let lo = if r.chance(9, 10) { (ops.len() as u64).min(2) } else { 0 };
        let at = (lo + r.below(ops.len() as u64 + 1 - lo)) as usize;
        ops.insert(at, Op::Observe);
    }
    let fmt = r.pick(&["auto", "auto", "semver", "pep440"]).to_string();
    let mut benign = vec![];
    for k in ["shuffle", "blank", "warn"] {
        if r.chance(2, 3) {
            benign.push((k.to_string(), r.next() >> 8));
        }
    }
    if benign.is_empty() {
        benign.push(("shuffle".into(), r.next() >> 8));
    }
    let last = actors.iter().map(|a| a.clock).max().unwrap_or(0);
    let sim_now = match r.below(8) {
        0 => last, // CI clock equal to / behind the developer's
        1 => last - r.range(1, 100000),
        2 => 0,
        3 => 4_294_967_295,
        _ => last + r.range(100000, 300_000_000),
    };
    let sc = Scenario { actors, ops, fmt, benign, sim_now, cwd_mode: r.below(3) as u8, skeleton };
    serde_json::to_value(sc).unwrap()
}

// ------------------------------------------------------------------------------------------
// the oracle

pub fn valid_for(name: &str, fmt: &str) -> bool {
    match fmt {
        "semver" => ver::parse_semver(name).is_some(),
        "pep440" => ver::parse_pep440(name).is_some(),
        _ => ver::parse_semver(name).is_some() || ver::parse_pep440(name).is_some(),
    }
}

pub struct Expect {
    pub head: Option<usize>,
    /// nearest validly tagged commits
    pub nearest: BTreeSet<usize>,
    /// acceptable base tag names
    pub acceptable: BTreeSet<String>,
}

/// tags on commit `c` that are maximal in family `sem` (true) / `pep` (false)
fn maximal_in_family(w: &World, c: usize, sem: bool) -> Vec<String> {
    maximal_in_family_with(w, c, sem, false)
}

fn maximal_in_family_with(w: &World, c: usize, sem: bool, dev_only_high: bool) -> Vec<String> {
    let names: Vec<&str> = w.tags_on(c).iter().map(|t| t.name.as_str()).collect();
    let mut out = vec![];
    if sem {
        let parsed: Vec<(&str, ver::SemVer)> = names.iter().filter_map(|n| ver::parse_semver(n).map(|v| (*n, v))).collect();
        for (n, v) in &parsed {
            if parsed.iter().all(|(_, u)| ver::cmp_semver(u, v) != Ordering::Greater) {
                out.push(n.to_string());
            }
        }
    } else {
        let parsed: Vec<(&str, ver::Pep440)> = names.iter().filter_map(|n| ver::parse_pep440(n).map(|v| (*n, v))).collect();
        for (n, v) in &parsed {
            if parsed.iter().all(|(_, u)| ver::cmp_pep440_with(u, v, dev_only_high) != Ordering::Greater) {
                out.push(n.to_string());
            }
        }
    }
    out
}

pub fn expect(w: &World, fmt: &str) -> Expect {
    let head = w.head_commit();
    let mut nearest = BTreeSet::new();
    let mut acceptable = BTreeSet::new();
    if let Some(h) = head {
        let anc = w.ancestors(h);
        let valid: BTreeSet<usize> = anc
            .iter()
            .copied()
            .filter(|&c| w.tags_on(c).iter().any(|t| valid_for(&t.name, fmt)))
            .collect();
        for &tc in &valid {
            // is there another validly tagged commit strictly between tc and HEAD?
            let shadowed = valid.iter().any(|&o| o != tc && w.ancestors(o).contains(&tc));
            if !shadowed {
                nearest.insert(tc);
            }
        }
        for &tc in &nearest {
            if fmt != "pep440" {
                acceptable.extend(maximal_in_family(w, tc, true));
            }
            if fmt != "semver" {
                acceptable.extend(maximal_in_family(w, tc, false));
            }
        }
    }
    Expect { head, nearest, acceptable }
}

pub struct Obs {
    pub out: crate::proc::Outcome,
    pub doc: Option<zron::Doc>,
    pub parse_err: Option<String>,
}

pub fn observe(ctx: &Ctx, rd: &RunDir, w: &World, fmt: &str, sim_now: i64, cwd_mode: u8, plan: &str, stats: &mut Stats) -> Obs {
    rd.set_plan(plan);
    rd.reset_trace();
    let repo = w.dir.to_string_lossy().to_string();
    let call = match cwd_mode {
        0 => ZervCall::new(&["version", "-C", &repo, "--input-format", fmt, "--output-format", "zerv"], std::path::Path::new("/"), sim_now),
        1 => ZervCall::new(&["version", "--input-format", fmt, "--output-format", "zerv"], &w.dir, sim_now),
        _ => {
            let sub = w.dir.join("zsim-sub/dir");
            // the sub-directory is ignored-by-emptiness: an empty directory is not a change
            let _ = std::fs::create_dir_all(&sub);
            ZervCall::new(&["version", "--input-format", fmt, "--output-format", "zerv"], &sub, sim_now)
        }
    };
    let out = run_zerv(ctx, rd, &call, stats);
    let (doc, parse_err) = if out.ok() {
        match zron::parse(&out.out_str()) {
            Ok(d) => (Some(d), None),
            Err(e) => (None, Some(e)),
        }
    } else {
        (None, None)
    };
    stats.event(format!(
        "observe fmt={fmt} now={sim_now} cwd={cwd_mode} plan={:?} -> {} out={} err={}",
        plan,
        out.status_str(),
        short(&norm(ctx, &out.out_str()), 4000),
        short(&norm(ctx, &out.err_str()), 600)
    ));
    Obs { out, doc, parse_err }
}

fn v(clause: &str, field: &str, exp: impl ToString, act: impl ToString, detail: impl ToString) -> Violation {
    Violation::new(PROP, clause, field, exp, act, detail)
}

/// Judge one observation against the model, row by row (DESIGN.md §4 C02 table).
///
/// A violation that disappears completely when nested tags (a tag object whose target is a
/// tag object) are made invisible in the model is relabelled `nested-tag-invisible:<clause>`:
/// that is the narrow identification of known finding KF-C02-nested-tag (`git tag
/// --points-at` peels one level only, so zerv does not see such tags).  Every other
/// violation keeps its clause.
pub fn judge(w: &World, fmt: &str, sim_now: i64, obs: &Obs, stats: &mut Stats) -> Vec<Violation> {
    let vs = judge_nested(w, fmt, sim_now, obs, stats);
    // known finding KF-C02-pep440-dev-order: the reported tag is not maximal under PEP 440, but it
    // is exactly the maximum under zerv's own (pinned by upstream tests) ranking of `X.devN`
    // above the pre-releases of X.  Identified only when that single deviation explains the choice.
    // (judged on a model that is blind to nested tags, as zerv is: the two known findings can coincide
    // on one commit)
    let mut w_blind = w.clone();
    for t in w_blind.tags.iter_mut() {
        if t.kind == TagKind::Nested {
            t.alive = false;
        }
    }
    vs.into_iter()
        .map(|mut x| {
            if x.field == "maximal" && x.clause.ends_with("base-tag") && fmt != "semver" {
                if let Some(tag) = w_blind.live_tags().find(|t| t.name == x.actual) {
                    let quirk_max = maximal_in_family_with(&w_blind, tag.target, false, true);
                    let devonly = ver::parse_pep440(&x.actual).map(|p| p.pre.is_none() && p.post.is_none() && p.dev.is_some()).unwrap_or(false);
                    if devonly && quirk_max.contains(&x.actual) {
                        stats.bump("probe.pep440_dev_only_ranked_above_prerelease");
                        x.clause = format!("pep440-dev-order:{}", x.clause);
                    }
                }
            }
            x
        })
        .collect()
}

fn judge_nested(w: &World, fmt: &str, sim_now: i64, obs: &Obs, stats: &mut Stats) -> Vec<Violation> {
    let vs = judge_inner(w, fmt, sim_now, obs, stats);
    if vs.is_empty() || !w.live_tags().any(|t| t.kind == TagKind::Nested) {
        return vs;
    }
    let mut w2 = w.clone();
    for t in w2.tags.iter_mut() {
        if t.kind == TagKind::Nested {
            t.alive = false;
        }
    }
    let mut scratch = Stats::new();
    let vs2 = judge_inner(&w2, fmt, sim_now, obs, &mut scratch);
    let nested: Vec<&String> = w.live_tags().filter(|t| t.kind == TagKind::Nested).map(|t| &t.name).collect();
    vs.into_iter()
        .map(|mut x| {
            // explained by the invisibility of nested tags: gone once the model does not see them either
            if !vs2.iter().any(|y| y.clause == x.clause && y.field == x.field) {
                stats.bump("probe.nested_tag_invisible");
                x.clause = format!("nested-tag-invisible:{}", x.clause);
                x.detail = format!("{}; nested tags: {:?}", x.detail, nested);
            }
            x
        })
        .collect()
}

fn judge_inner(w: &World, fmt: &str, sim_now: i64, obs: &Obs, stats: &mut Stats) -> Vec<Violation> {
    let mut out = vec![];
    let e = expect(w, fmt);
    let ctxs = format!("fmt={fmt} head={:?}", w.head);
    if obs.out.watchdog {
        return vec![v("liveness", "watchdog", "terminates", "killed by watchdog", &ctxs)];
    }
    match &obs.out.status {
        crate::proc::Status::Exit(_) => {}
        other => return vec![v("clean-exit", "status", "exit", format!("{other:?}"), obs.out.err_str())],
    }
    if obs.out.err_str().contains("panicked at") {
        return vec![v("clean-exit", "panic", "no panic", short(&obs.out.err_str(), 300), &ctxs)];
    }
    if e.nearest.is_empty() {
        stats.bump("probe.expect_no_version");
        if e.head.is_none() {
            stats.bump("probe.unborn_head");
        }
        if obs.out.ok() || !obs.out.stdout.is_empty() {
            out.push(v(
                "no-valid-tag",
                "reported-version",
                "failure without a version (no valid version tag reachable from HEAD)",
                short(&obs.out.out_str(), 200),
                format!("{ctxs}; live tags: {:?}", w.live_tags().map(|t| &t.name).collect::<Vec<_>>()),
            ));
        }
        return out;
    }
    let h = e.head.unwrap();
    if !obs.out.ok() {
        out.push(v(
            "has-valid-tag",
            "failure",
            format!("a version based on one of {:?}", e.acceptable),
            format!("{} stderr={}", obs.out.status_str(), short(&obs.out.err_str(), 300)),
            &ctxs,
        ));
        return out;
    }
    let Some(doc) = &obs.doc else {
        out.push(v("output", "ron", "RON document", obs.parse_err.clone().unwrap_or_default(), short(&obs.out.out_str(), 300)));
        return out;
    };
    let vars = &doc.vars;
    // ---- base tag
    let tname = vars.last_tag_version.clone().unwrap_or_default();
    let tag = w.live_tags().find(|t| t.name == tname);
    let Some(tag) = tag else {
        out.push(v("base-tag", "last_tag_version", format!("one of {:?}", e.acceptable), &tname, "reported tag does not exist"));
        return out;
    };
    let tc = tag.target;
    let anc_h = w.ancestors(h);
    if !anc_h.contains(&tc) {
        out.push(v("base-tag", "reachability", format!("one of {:?}", e.acceptable), &tname, "reported tag is not reachable from HEAD"));
        return out;
    }
    if !valid_for(&tname, fmt) {
        out.push(v("base-tag", "validity", format!("one of {:?}", e.acceptable), &tname, format!("tag is not valid for {fmt}")));
        return out;
    }
    if !e.nearest.contains(&tc) {
        out.push(v(
            "base-tag",
            "nearest",
            format!("one of {:?}", e.acceptable),
            &tname,
            "another validly tagged commit lies between the reported tag's commit and HEAD",
        ));
        return out;
    }
    if !e.acceptable.contains(&tname) {
        out.push(v(
            "base-tag",
            "maximal",
            format!("one of {:?}", e.acceptable),
            &tname,
            format!("tags on that commit: {:?}", w.tags_on(tc).iter().map(|t| &t.name).collect::<Vec<_>>()),
        ));
    }
    // ---- release numbers
    if let Some((a, b, c3)) = ver::release3(&tname) {
        let got = (
            vars.major.map(|x| x.to_string()).unwrap_or("None".into()),
            vars.minor.map(|x| x.to_string()).unwrap_or("None".into()),
            vars.patch.map(|x| x.to_string()).unwrap_or("None".into()),
        );
        if got != (a.clone(), b.clone(), c3.clone()) {
            out.push(v("release-numbers", "major.minor.patch", format!("{a}.{b}.{c3}"), format!("{}.{}.{}", got.0, got.1, got.2), &tname));
        }
    }
    // ---- distance
    let anc_t = w.ancestors(tc);
    let dist = anc_h.difference(&anc_t).count() as u64;
    if vars.distance != Some(dist) {
        out.push(v("distance", "distance", dist, format!("{:?}", vars.distance), format!("tag {tname} at #{tc}, head #{h}")));
    }
    // ---- dirty
    if vars.dirty != Some(w.is_dirty()) {
        out.push(v("dirty", "dirty", w.is_dirty(), format!("{:?}", vars.dirty), format!("work tree: {:?}", w.dirt)));
    }
    // ---- branch
    if vars.bumped_branch != w.head_branch() {
        out.push(v("branch", "bumped_branch", format!("{:?}", w.head_branch()), format!("{:?}", vars.bumped_branch), ""));
    }
    // ---- hashes and times
    let want_hash = format!("g{}", w.commits[h].hash);
    if vars.bumped_commit_hash.as_deref() != Some(&want_hash) {
        out.push(v("head", "bumped_commit_hash", &want_hash, format!("{:?}", vars.bumped_commit_hash), ""));
    }
    let ct = w.commits[h].ctime as u64;
    let ts_ok = if w.is_dirty() {
        // documented: a dirty tree is stamped "now"; the clock seam makes this exact
        vars.bumped_timestamp == Some(sim_now.max(0) as u64) || vars.bumped_timestamp == Some(ct)
    } else {
        vars.bumped_timestamp == Some(ct)
    };
    if !ts_ok {
        out.push(v(
            "head",
            "bumped_timestamp",
            if w.is_dirty() { format!("{ct} or now={sim_now}") } else { ct.to_string() },
            format!("{:?}", vars.bumped_timestamp),
            format!("author time {}", w.commits[h].atime),
        ));
    }
    let want_last = format!("g{}", w.commits[tc].hash);
    if vars.last_commit_hash.as_deref() != Some(&want_last) {
        out.push(v("tagged-commit", "last_commit_hash", &want_last, format!("{:?}", vars.last_commit_hash), &tname));
    }
    if vars.last_timestamp != Some(w.commits[tc].ctime as u64) {
        out.push(v(
            "tagged-commit",
            "last_timestamp",
            w.commits[tc].ctime,
            format!("{:?}", vars.last_timestamp),
            format!("tag {tname} ({:?}); author time {}", tag.kind, w.commits[tc].atime),
        ));
    }

    // ---- probes (rare conditions that the workload must reach)
    if w.commits.iter().any(|c| c.parents.len() >= 2) && anc_h.iter().any(|&c| w.commits[c].parents.len() >= 2) {
        stats.bump("probe.merge_in_ancestry");
    }
    if anc_h.iter().any(|&c| w.commits[c].parents.len() >= 3) {
        stats.bump("probe.octopus_in_ancestry");
    }
    if w.tags_on(tc).len() >= 2 {
        stats.bump("probe.several_tags_on_base_commit");
    }
    if e.acceptable.len() >= 2 {
        stats.bump("probe.answer_not_unique");
    }
    if e.nearest.len() >= 2 {
        stats.bump("probe.several_nearest_commits");
    }
    if w.live_tags().any(|t| !anc_h.contains(&t.target) && valid_for(&t.name, fmt)) {
        stats.bump("probe.valid_tag_unreachable");
    }
    if anc_h.iter().any(|&c| c != tc && anc_t.contains(&c) && w.tags_on(c).iter().any(|t| valid_for(&t.name, fmt))) {
        stats.bump("probe.older_valid_tag_shadowed");
    }
    if anc_h.iter().any(|&c| !anc_t.contains(&c) && !w.tags_on(c).is_empty()) {
        stats.bump("probe.invalid_tag_nearer_than_base");
    }
    if w.head_branch().is_none() {
        stats.bump("probe.detached_head");
    }
    if w.is_dirty() {
        stats.bump("probe.dirty");
    }
    if w.dirt.len() == 1 && w.dirt.contains(&DirtyKind::SubmoduleContent) {
        stats.bump("probe.dirty_only_inside_submodule");
    }
    if !w.dirt.is_empty() && !w.is_dirty() {
        stats.bump("probe.touched_but_clean");
    }
    if tag.kind != TagKind::Light {
        stats.bump("probe.annotated_base_tag");
    }
    if tag.kind == TagKind::Nested {
        stats.bump("probe.nested_base_tag");
    }
    if anc_h.iter().any(|&c| w.commits[c].parents.iter().any(|&p| w.commits[p].ctime > w.commits[c].ctime)) {
        stats.bump("probe.child_older_than_parent");
    }
    if anc_h.iter().any(|&c| w.commits[c].atime != w.commits[c].ctime) {
        stats.bump("probe.author_time_differs");
    }
    if dist > 0 && anc_h.difference(&anc_t).any(|&c| w.commits[c].parents.len() >= 2) {
        stats.bump("probe.merge_inside_distance");
    }
    if w.branches.iter().any(|b| b.alive && w.live_tags().any(|t| t.name == b.name)) {
        stats.bump("probe.tag_named_like_branch");
    }
    if w.head_branch().map(|b| !b.is_ascii()).unwrap_or(false) {
        stats.bump("probe.non_ascii_branch");
    }
    if anc_h.iter().filter(|&&c| w.commits[c].parents.is_empty()).count() >= 2 {
        stats.bump("probe.several_roots_in_ancestry");
    }
    if w.tree_tags.iter().any(|(n, _)| valid_for(n, fmt)) {
        stats.bump("probe.version_named_tag_on_a_tree");
    }
    out
}

// ------------------------------------------------------------------------------------------
// execution

pub fn build_world(ctx: &Ctx, rd: &RunDir, actors: &[Actor]) -> HResult<World> {
    let _ = ctx;
    World::create(&rd.repo(), &rd.home(), actors.to_vec())
}

pub fn benign_plan(b: &[(String, u64)]) -> String {
    b.iter().map(|(k, s)| format!("benign {k} {s}\n")).collect()
}

pub fn execute(ctx: &Ctx, scv: &serde_json::Value, rd: &RunDir, stats: &mut Stats) -> HResult<Vec<Violation>> {
    let sc: Scenario = serde_json::from_value(scv.clone()).map_err(|e| HarnessError(format!("bad C02 scenario: {e}")))?;
    let mut w = build_world(ctx, rd, &sc.actors)?;
    stats.event(format!("scenario skeleton={} fmt={} now={} cwd={}", sc.skeleton, sc.fmt, sc.sim_now, sc.cwd_mode));
    let validate_every = ctx.tier == Tier::Thorough;
    let mut viol: Vec<Violation> = vec![];
    let nops = sc.ops.len();
    for (i, op) in sc.ops.iter().chain(std::iter::once(&Op::Observe)).enumerate() {
        let last = i == nops;
        if *op != Op::Observe {
            let r = w.apply(op)?;
            stats.event(format!("op {i} {op:?} => {r}"));
            continue;
        }
        // observe first: the plumbing used for cross-validation (`git diff`) refreshes the index, which
        // would hide a stat-dirty-but-content-clean work tree from the program under test
        let obs = observe(ctx, rd, &w, &sc.fmt, sc.sim_now, sc.cwd_mode, "", stats);
        stats.bump("observations");
        if validate_every || last {
            w.validate()?;
            stats.bump("model_validated_against_plumbing");
        }
        let mut vs = judge(&w, &sc.fmt, sc.sim_now, &obs, stats);
        let key = w.shape_key(&sc.fmt);
        if w.commits.len() >= 2 && w.live_tags().count() >= 1 {
            stats.distinct_key(&key);
        }
        if last && vs.is_empty() {
            // metamorphic 1: the same state under the proxy's benign perturbations
            let e = expect(&w, &sc.fmt);
            let obs2 = observe(ctx, rd, &w, &sc.fmt, sc.sim_now, sc.cwd_mode, &benign_plan(&sc.benign), stats);
            stats.bump("observations_benign");
            for b in &sc.benign {
                stats.bump(&format!("benign.{}", b.0));
            }
            vs.extend(judge(&w, &sc.fmt, sc.sim_now, &obs2, stats).into_iter().map(|mut x| {
                x.clause = format!("benign:{}", x.clause);
                x
            }));
            if e.acceptable.len() <= 1 && obs2.out.stdout != obs.out.stdout {
                vs.push(v("metamorphic", "benign-perturbation", short(&obs.out.out_str(), 2000), short(&obs2.out.out_str(), 2000), "same state, git output lines shuffled / padded"));
            }
            // metamorphic 2: storage re-encoding must not change any fact
            if vs.is_empty() && w.head_commit().is_some() {
                w.apply(&Op::PackRefs)?;
                let obs3 = observe(ctx, rd, &w, &sc.fmt, sc.sim_now, sc.cwd_mode, "", stats);
                stats.bump("observations_packed");
                vs.extend(judge(&w, &sc.fmt, sc.sim_now, &obs3, stats).into_iter().map(|mut x| {
                    x.clause = format!("packed:{}", x.clause);
                    x
                }));
                if e.acceptable.len() <= 1 && obs3.out.stdout != obs.out.stdout {
                    vs.push(v("metamorphic", "pack-refs", short(&obs.out.out_str(), 2000), short(&obs3.out.out_str(), 2000), "same state after git pack-refs --all"));
                }
            }
            // metamorphic 3: another spelling of the working directory
            if vs.is_empty() {
                let other = (sc.cwd_mode + 1) % 3;
                let obs4 = observe(ctx, rd, &w, &sc.fmt, sc.sim_now, other, "", stats);
                stats.bump("observations_other_cwd");
                vs.extend(judge(&w, &sc.fmt, sc.sim_now, &obs4, stats).into_iter().map(|mut x| {
                    x.clause = format!("cwd:{}", x.clause);
                    x
                }));
            }
        }
        // metamorphic 4: a linked work tree (`git worktree add`) detached at the same commit sees the
        // same history facts; its `.git` is a file, its HEAD is detached, its tree is clean
        if last && vs.is_empty() && sc.cwd_mode == 0 {
            if let Some(h) = w.head_commit() {
                let wt = rd.dir.join("linked-wt");
                let wt_s = wt.to_string_lossy().to_string();
                let hash = w.commits[h].hash.clone();
                if w.git(&["worktree", "add", "-q", "--detach", &wt_s, &hash], None, None).is_ok() {
                    let mut w2 = w.clone();
                    w2.dir = wt.clone();
                    w2.head = Head::Detached(h);
                    w2.dirt.clear();
                    let obs5 = observe(ctx, rd, &w2, &sc.fmt, sc.sim_now, 0, "", stats);
                    stats.bump("observations_linked_worktree");
                    vs.extend(judge(&w2, &sc.fmt, sc.sim_now, &obs5, stats).into_iter().map(|mut x| {
                        x.clause = format!("linked-worktree:{}", x.clause);
                        x
                    }));
                    let _ = w.git(&["worktree", "remove", "--force", &wt_s], None, None);
                }
            }
        }
        if last && stats.samples.is_empty() {
            stats.samples.push(serde_json::json!({
                "skeleton": sc.skeleton, "fmt": sc.fmt, "ops": w.log, "head": format!("{:?}", w.head),
                "zerv_stdout": short(&obs.out.out_str(), 1500), "status": obs.out.status_str(),
            }));
        }
        if !vs.is_empty() {
            viol = vs;
            break;
        }
    }
    stats.git_spawns += w.nspawn;
    if w.t_min <= w.t_max {
        stats.time(w.t_min);
        stats.time(w.t_max);
    }
    stats.time(sc.sim_now);
    Ok(viol)
}

// ------------------------------------------------------------------------------------------
// minimisation candidates: strictly simpler scenarios

pub fn simplify_op(op: &Op) -> Vec<Op> {
    let mut v = vec![];
    match op {
        Op::Commit { actor, dt, adt, with_file } => {
            if *dt != 10 || *adt != 0 || *with_file || *actor != 0 {
                v.push(Op::Commit { actor: 0, dt: 10, adt: 0, with_file: false });
            }
        }
        Op::Tag { name, kind, target, actor, dt } => {
            if *kind != TagKind::Light || *actor != 0 || *dt != 0 {
                v.push(Op::Tag { name: name.clone(), kind: TagKind::Light, target: *target, actor: 0, dt: 0 });
            }
            for simple in ["v1.0.0", "v2.0.0", "v0.1.0"] {
                if name != simple && valid_for(name, "semver") {
                    v.push(Op::Tag { name: simple.into(), kind: *kind, target: *target, actor: *actor, dt: *dt });
                }
            }
        }
        Op::Branch { name, from } => {
            if name != "b1" && name != "b2" {
                v.push(Op::Branch { name: "b1".into(), from: *from });
                v.push(Op::Branch { name: "b2".into(), from: *from });
            }
        }
        Op::Merge { others, actor, dt } => {
            if others.len() > 1 {
                v.push(Op::Merge { others: vec![others[0]], actor: *actor, dt: *dt });
            }
            if *dt != 10 || *actor != 0 {
                v.push(Op::Merge { others: others.clone(), actor: 0, dt: 10 });
            }
        }
        Op::Amend { actor, dt, adt } => {
            if *dt != 10 || *adt != 0 || *actor != 0 {
                v.push(Op::Amend { actor: 0, dt: 10, adt: 0 });
            }
        }
        _ => {}
    }
    v
}

pub fn shrink(scv: &serde_json::Value) -> Vec<serde_json::Value> {
    let Ok(sc) = serde_json::from_value::<Scenario>(scv.clone()) else { return vec![] };
    let mut out: Vec<Scenario> = vec![];
    let n = sc.ops.len();
    // drop chunks (halves, quarters, …, single ops)
    let mut chunk = n / 2;
    while chunk >= 1 {
        let mut i = 0;
        while i < n {
            let mut s = sc.clone();
            let end = (i + chunk).min(n);
            s.ops.drain(i..end);
            out.push(s);
            i += chunk;
        }
        chunk /= 2;
    }
    // simplify single ops
    for i in 0..n {
        for alt in simplify_op(&sc.ops[i]) {
            let mut s = sc.clone();
            s.ops[i] = alt;
            out.push(s);
        }
    }
    if sc.actors.len() > 1 {
        let mut s = sc.clone();
        s.actors.truncate(1);
        out.push(s);
    }
    if sc.actors.iter().any(|a| a.tz != "+0000" || a.clock != 1_000_000_000) {
        let mut s = sc.clone();
        for a in s.actors.iter_mut() {
            a.tz = "+0000".into();
            a.clock = 1_000_000_000;
        }
        out.push(s);
    }
    if sc.cwd_mode != 0 {
        let mut s = sc.clone();
        s.cwd_mode = 0;
        out.push(s);
    }
    if sc.benign.len() > 1 {
        for i in 0..sc.benign.len() {
            let mut s = sc.clone();
            s.benign.remove(i);
            out.push(s);
        }
    }
    if sc.sim_now != 2_000_000_000 {
        let mut s = sc.clone();
        s.sim_now = 2_000_000_000;
        out.push(s);
    }
    out.into_iter().map(|s| serde_json::to_value(s).unwrap()).collect()
}
