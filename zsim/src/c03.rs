//! C03 – flow versions sort consistently with history.
//! Workflow simulation: the same simulated world as C02, driven by GitFlow / trunk-like
//! actors, observed with `zerv flow`, judged by comparators written from SemVer 2.0.0 §11 and
//! PEP 440 (never zerv's own), with the clause to apply decided from the reference model.

use crate::c02;
use crate::rng::Rng;
use crate::sim::*;
use crate::ver;
use crate::world::*;
use serde::{Deserialize, Serialize};
use std::cmp::Ordering;
use std::path::Path;

pub const PROP: &str = "C03";

#[derive(Serialize, Deserialize, Clone, Debug, PartialEq)]
pub enum Step {
    W(Op),
    /// tag HEAD with the public part of flow's own current output (pre-release shapes); `pep`: in the
    /// spelling of `--output-format pep440`
    Release {
        annotated: bool,
        #[serde(default)]
        pep: bool,
    },
    /// tag HEAD with the next final release X.Y.(Z+1) / X.(Y+1).0 / (X+1).0.0
    FinalRelease { bump: u8 },
    Observe,
}

#[derive(Serialize, Deserialize, Clone, Debug)]
pub struct Scenario {
    pub actors: Vec<Actor>,
    pub first_tag: String,
    pub steps: Vec<Step>,
    /// flow flags fixed for the whole run (schema, post mode, hash length, rules, label / num)
    pub flags: Vec<String>,
    /// zerv's wall clock at the first observation and its advance per observation
    pub sim_now: i64,
    pub now_step: i64,
    /// override-only states (`--source none`): the "for all inputs" part of the quantifier under
    /// the same flag set and the same simulated clock
    #[serde(default)]
    pub none_states: Vec<NoneState>,
}

#[derive(Serialize, Deserialize, Clone, Debug, PartialEq)]
pub struct NoneState {
    pub tag: String,
    pub branch: String,
    pub distance: Option<u64>,
    /// "", "--dirty", "--no-dirty", "--clean"
    pub dirty: String,
}

pub const PRESETS: &[&str] = &[
    "standard", "standard-no-context", "standard-context", "standard-base", "standard-base-prerelease", "standard-base-prerelease-post",
    "standard-base-prerelease-post-dev", "standard-base-context", "standard-base-prerelease-context", "standard-base-prerelease-post-context",
    "standard-base-prerelease-post-dev-context",
];

pub const RULESETS: &[&str] = &[
    "[(pattern:\"develop\",pre_release_label:beta,pre_release_num:Some(1),post_mode:commit),(pattern:\"release/*\",pre_release_label:rc,pre_release_num:None,post_mode:tag),(pattern:\"*\",pre_release_label:alpha,pre_release_num:None,post_mode:commit)]",
    "[(pattern:\"*\",pre_release_label:rc,pre_release_num:None,post_mode:tag)]",
    "[(pattern:\"*\",pre_release_label:beta,pre_release_num:None,post_mode:commit)]",
    "[(pattern:\"main\",pre_release_label:rc,pre_release_num:Some(7),post_mode:commit),(pattern:\"feature/*\",pre_release_label:beta,pre_release_num:None,post_mode:commit),(pattern:\"*\",pre_release_label:alpha,pre_release_num:None,post_mode:tag)]",
    "[(pattern:\"hotfix/*\",pre_release_label:rc,pre_release_num:None,post_mode:commit),(pattern:\"develop\",pre_release_label:alpha,pre_release_num:Some(0),post_mode:tag)]",
];

fn flow_branch(r: &mut Rng) -> String {
    match r.below(10) {
        0 => "develop".into(),
        1 => format!("release/{}", r.below(30)),
        2 => format!("release/{}/fix-{}", r.below(9), r.below(9)),
        3 => format!("feature/{}", r.pick(&["login", "user-auth", "x", "API_v2", "a.b", "JIRA-1234-thing"])),
        4 => format!("hotfix/{}", r.pick(&["urgent", "1.0.1", "cve-2024-1"])),
        5 => format!("feature/{}/{}", r.below(100), r.pick(&["part", "wip", "x+y", "a@b"])),
        6 => r.pick(&["dev", "staging", "master", "trunk", "x", "release", "releases/3", "bugfix/77", "dependabot/cargo/serde-1.0.200"]).to_string(),
        7 => format!("user/{}/exp-{}", r.pick(&["alice", "bob"]), r.below(1000)),
        8 => format!("b{}", r.below(100000)),
        _ => r.pick(&["UPPER/Case", "with_underscore", "dots.in.name", "trailing-dash-", "007", "v2", "1.x", "feature/007"]).to_string(),
    }
}

pub fn generate(r: &mut Rng, _tier: Tier, _group: u64) -> serde_json::Value {
    let mut actors = c02::gen_actors(r);
    for a in actors.iter_mut() {
        a.clock = a.clock.min(4_000_000_000);
    }
    let (x, y, z) = (crate::names::small(r), crate::names::small(r), crate::names::small(r));
    let first_tag = match r.below(6) {
        0 => format!("{x}.{y}.{z}"),
        _ => format!("v{x}.{y}.{z}"),
    };
    let na = actors.len();
    let dt = |r: &mut Rng| -> i64 {
        match r.below(6) {
            0 => 0,
            1 => -r.range(1, 5000),
            _ => r.range(1, 100_000),
        }
    };
    let mut steps: Vec<Step> = vec![];
    // a quarter of the runs start from a directed workflow skeleton: two lines of development
    // merged into each other in both directions, observed after every step
    if r.chance(1, 4) {
        let cm = |r: &mut Rng| Step::W(Op::Commit { actor: 0, dt: r.range(1, 1000), adt: 0, with_file: r.chance(1, 2) });
        let br = flow_branch(r);
        steps.push(Step::W(Op::Branch { name: br, from: None }));
        steps.push(Step::W(Op::Checkout { branch: 1 }));
        steps.push(cm(r));
        steps.push(Step::Observe);
        for _ in 0..(1 + r.below(3)) {
            steps.push(Step::W(Op::Checkout { branch: 0 }));
            if r.chance(1, 2) {
                steps.push(cm(r));
            }
            steps.push(Step::Observe);
            if r.chance(2, 3) {
                // a step that adds nothing but merge commits when the other line already has ours
                steps.push(Step::W(Op::Merge { others: vec![1], actor: 0, dt: 5 }));
                steps.push(Step::Observe);
            }
            steps.push(Step::W(Op::Checkout { branch: 1 }));
            steps.push(Step::W(Op::Merge { others: vec![0], actor: 0, dt: 5 }));
            steps.push(Step::Observe);
            if r.chance(1, 2) {
                steps.push(cm(r));
                steps.push(Step::Observe);
            }
        }
    }
    let n = r.geometric(1, 30, 8);
    let w = [30u32, 12, 12, 8, 6, 6, 4, 8, 4, 3, 12, 2];
    for _ in 0..n {
        let a = r.below(na as u64) as usize;
        let s = match r.weighted(&w) {
            0 => Step::W(Op::Commit { actor: a, dt: dt(r), adt: 0, with_file: r.chance(1, 2) }),
            1 => Step::W(Op::Branch { name: flow_branch(r), from: None }),
            2 => Step::W(Op::Checkout { branch: r.below(8) as usize }),
            3 => Step::W(Op::Dirty { kind: *r.pick(&DirtyKind::ALL) }),
            4 => Step::W(Op::Clean),
            5 => Step::W(Op::Merge { others: vec![r.below(8) as usize], actor: a, dt: dt(r) }),
            6 => Step::W(Op::FastForward { branch: r.below(8) as usize }),
            7 => Step::Release { annotated: r.chance(1, 3), pep: r.chance(1, 3) },
            8 => Step::FinalRelease { bump: r.below(3) as u8 },
            9 => Step::W(Op::Detach { commit: r.below(32) as usize }),
            10 => Step::Observe,
            _ => Step::W(Op::ResetHard { commit: r.below(32) as usize }),
        };
        steps.push(s);
    }
    let mut flags: Vec<String> = vec![];
    if r.chance(2, 3) {
        flags.extend(["--schema".into(), r.pick(PRESETS).to_string()]);
    }
    if r.chance(1, 2) {
        flags.extend(["--post-mode".into(), r.pick(&["commit", "tag"]).to_string()]);
    }
    if r.chance(1, 2) {
        flags.extend(["--hash-branch-len".into(), (1 + r.below(10)).to_string()]);
    }
    if r.chance(1, 3) {
        flags.extend(["--branch-rules".into(), r.pick(RULESETS).to_string()]);
    }
    if r.chance(1, 6) {
        flags.extend(["--pre-release-label".into(), r.pick(&["alpha", "beta", "rc"]).to_string()]);
    }
    if r.chance(1, 6) {
        flags.extend(["--pre-release-num".into(), r.pick(&["0", "1", "42", "4294967295"]).to_string()]);
    }
    if r.chance(1, 8) {
        // a final release given as an override on top of whatever the source says
        flags.extend(["--tag-version".into(), format!("v{}.{}.{}", 20 + r.below(9), r.below(9), r.below(9))]);
    }
    let last = actors.iter().map(|a| a.clock).max().unwrap_or(0);
    let sim_now = match r.below(8) {
        0 => 0,
        1 => 1,
        2 => 4_294_967_295 - 40,
        3 => 2_147_483_647,
        4 => (last - r.range(1, 1_000_000)).max(0),
        _ => (last + r.range(1, 50_000_000)).min(4_294_967_000),
    };
    let now_step = *r.pick(&[0i64, 1, 1, 60, 86_400]);
    let mut none_states = vec![];
    let nn = 4 + r.below(8);
    while (none_states.len() as u64) < nn {
        let (x, y, z) = (crate::names::small(r), crate::names::small(r), crate::names::small(r));
        let tag = match r.below(8) {
            0..=4 => format!("v{x}.{y}.{z}"),
            5 => format!("{x}.{y}.{z}"),
            6 => format!("v{x}.{y}.{z}-{}.{}", r.pick(&["alpha", "beta", "rc"]), r.below(100000)),
            _ => format!("v{x}.{y}.{z}-{}.{}.post.{}", r.pick(&["alpha", "beta", "rc"]), r.below(100), r.below(20)),
        };
        let branch = if r.chance(1, 4) { "main".to_string() } else { flow_branch(r) };
        let dirty = r.pick(&["", "", "--dirty", "--no-dirty", "--clean"]).to_string();
        let base = *r.pick(&[0u64, 0, 1, 2, 9, 10, 99, 2147483647]);
        if dirty == "--clean" {
            none_states.push(NoneState { tag, branch, distance: None, dirty });
        } else if dirty.is_empty() && r.chance(1, 4) {
            // a release chain: a state after the tag, then the tag flow printed for it ("<<PREV>>") at
            // distance 0 (clause 4) and with more commits (clause 3 from the tag onwards)
            let d0 = 1 + r.below(12);
            none_states.push(NoneState { tag: tag.clone(), branch: branch.clone(), distance: Some(d0), dirty: String::new() });
            for d in [0u64, 1, 4] {
                none_states.push(NoneState { tag: "<<PREV>>".into(), branch: branch.clone(), distance: Some(d), dirty: String::new() });
            }
        } else if r.chance(1, 3) {
            // a ladder of distances on one branch and tag (clause 3)
            for step in [0u64, 1, 6] {
                none_states.push(NoneState { tag: tag.clone(), branch: branch.clone(), distance: Some(base.saturating_add(step).min(4294967295)), dirty: dirty.clone() });
            }
        } else {
            none_states.push(NoneState { tag, branch, distance: if r.chance(1, 6) { None } else { Some(base) }, dirty });
        }
    }
    let sc = Scenario { actors, first_tag, steps, flags, sim_now, now_step, none_states };
    serde_json::to_value(sc).unwrap()
}

// ------------------------------------------------------------------------------------------
// version helpers (independent of zerv)

fn add_one(n: &str) -> String {
    let mut d: Vec<u8> = n.bytes().collect();
    let mut i = d.len();
    loop {
        if i == 0 {
            d.insert(0, b'1');
            break;
        }
        i -= 1;
        if d[i] == b'9' {
            d[i] = b'0';
        } else {
            d[i] += 1;
            break;
        }
    }
    String::from_utf8(d).unwrap()
}

/// (X, Y, Z) when `tag` is a final release `[v]X.Y.Z`
pub fn final_xyz(tag: &str) -> Option<(String, String, String)> {
    let s = ver::parse_semver(tag)?;
    if s.pre.is_empty() && s.build.is_empty() {
        Some((s.major, s.minor, s.patch))
    } else {
        None
    }
}

/// `[v]X.Y.Z-label.N[.post.P]` – the pre-release shapes flow itself produces
pub fn flow_prerelease(tag: &str) -> Option<(String, String, String, String, String, Option<String>)> {
    if let Some(p) = pep_prerelease(tag) {
        return Some(p);
    }
    let s = ver::parse_semver(tag)?;
    if !s.build.is_empty() {
        return None;
    }
    let is_num = |x: &String| x.bytes().all(|c| c.is_ascii_digit());
    let label_ok = |l: &String| matches!(l.as_str(), "alpha" | "beta" | "rc");
    match s.pre.as_slice() {
        [l, n] if label_ok(l) && is_num(n) => Some((s.major, s.minor, s.patch, l.clone(), n.clone(), None)),
        [l, n, p, pn] if label_ok(l) && is_num(n) && p == "post" && is_num(pn) => Some((s.major, s.minor, s.patch, l.clone(), n.clone(), Some(pn.clone()))),
        _ => None,
    }
}

/// `[v]X.Y.Z{a|b|rc}N[.postP]` – the same shapes in the spelling flow prints for `--output-format pep440`
pub fn pep_prerelease(tag: &str) -> Option<(String, String, String, String, String, Option<String>)> {
    if ver::parse_semver(tag).is_some() {
        return None;
    }
    let p = ver::parse_pep440(tag)?;
    let (cls, n) = p.pre.clone()?;
    if p.release.len() != 3 || p.dev.is_some() || !p.local.is_empty() || p.epoch != "0" {
        return None;
    }
    let lab = ["a", "b", "rc"][cls as usize];
    let long = ["alpha", "beta", "rc"][cls as usize];
    // canonical spelling only (what flow prints), with an optional leading v
    let canon = format!("{}.{}.{}{lab}{n}{}", p.release[0], p.release[1], p.release[2], p.post.as_ref().map(|x| format!(".post{x}")).unwrap_or_default());
    if tag.strip_prefix('v').unwrap_or(tag) != canon {
        return None;
    }
    Some((p.release[0].clone(), p.release[1].clone(), p.release[2].clone(), long.to_string(), n, p.post.clone()))
}

enum Parsed {
    Sem(ver::SemVer),
    Pep(ver::Pep440),
}

fn parse_out(fmt: &str, s: &str) -> Option<Parsed> {
    if fmt == "semver" {
        // flow never prints a `v` unless asked to with --output-prefix
        if s.starts_with('v') {
            return None;
        }
        ver::parse_semver(s).map(Parsed::Sem)
    } else {
        ver::parse_pep440(s).map(Parsed::Pep)
    }
}

fn cmp_parsed(a: &Parsed, b: &Parsed) -> Ordering {
    match (a, b) {
        (Parsed::Sem(x), Parsed::Sem(y)) => ver::cmp_semver(x, y),
        (Parsed::Pep(x), Parsed::Pep(y)) => ver::cmp_pep440(x, y),
        _ => Ordering::Equal,
    }
}

// ------------------------------------------------------------------------------------------
// execution

#[derive(Clone, Debug)]
struct Record {
    step: usize,
    branch: Option<String>,
    head: usize,
    tag: String,
    distance: u64,
    dirty: bool,
    commit_mode: bool,
    out: [Option<String>; 2], // semver, pep440
}

fn flag_val<'a>(flags: &'a [String], name: &str) -> Option<&'a str> {
    flags.iter().position(|f| f == name).and_then(|i| flags.get(i + 1)).map(|s| s.as_str())
}

/// first-parent chain of `c` (including `c`)
fn first_parent_chain(w: &World, c: usize) -> Vec<usize> {
    let mut v = vec![c];
    let mut cur = c;
    while let Some(&p) = w.commits[cur].parents.first() {
        v.push(p);
        cur = p;
    }
    v
}

fn mk(clause: &str, field: &str, exp: impl ToString, act: impl ToString, detail: impl ToString) -> Violation {
    Violation::new(PROP, clause, field, exp, act, detail)
}

fn run_flow(ctx: &Ctx, rd: &RunDir, w: &World, flags: &[String], fmt: &str, now: i64, stats: &mut Stats) -> crate::proc::Outcome {
    let repo = w.dir.to_string_lossy().to_string();
    let mut args: Vec<String> = vec!["flow".into(), "-C".into(), repo, "--output-format".into(), fmt.into()];
    args.extend(flags.iter().cloned());
    let a: Vec<&str> = args.iter().map(|s| s.as_str()).collect();
    run_zerv(ctx, rd, &ZervCall::new(&a, Path::new("/"), now), stats)
}

fn tag_shape_of(tag: &str) -> &'static str {
    if final_xyz(tag).is_some() {
        "final"
    } else if flow_prerelease(tag).is_some() {
        "flow-prerelease"
    } else {
        "other"
    }
}

/// Clauses 1, 2 and 4 for one output format of one observed state.  Returns the printed version.
fn judge_one(f: &str, o: &crate::proc::Outcome, tag: &str, at_tag_clean: bool, state: &str, stats: &mut Stats, viol: &mut Vec<Violation>) -> Option<String> {
    let tag_shape = tag_shape_of(tag);
    let line = o.out_str();
    let got = line.strip_suffix('\n').unwrap_or(&line).to_string();
    if !o.ok() {
        if tag_shape == "other" {
            return None; // no clause speaks about other base tags
        }
        viol.push(mk(
            if tag_shape == "final" { "clause2-yields-a-version" } else { "clause4-yields-a-version" },
            f,
            "a version",
            format!("{} {}", o.status_str(), short(&o.err_str(), 300)),
            state,
        ));
        return None;
    }
    let Some(v) = parse_out(f, &got) else {
        viol.push(mk("output-format", f, format!("a {f} version"), &got, state));
        return Some(got);
    };
    if let Some((x, y, z)) = final_xyz(tag) {
        let lo = format!("{x}.{y}.{z}");
        let hi = format!("{x}.{y}.{}", add_one(&z));
        if at_tag_clean {
            stats.bump("clause1_evaluated");
            if got != lo {
                viol.push(mk("clause1-exact-at-clean-tag", f, &lo, &got, state));
            }
        } else {
            stats.bump("clause2_evaluated");
            let plo = parse_out(f, &lo).unwrap();
            let phi = parse_out(f, &hi).unwrap();
            if cmp_parsed(&plo, &v) != Ordering::Less {
                viol.push(mk("clause2-lower-bound", f, format!("> {lo}"), &got, state));
            } else if cmp_parsed(&v, &phi) != Ordering::Less {
                viol.push(mk("clause2-upper-bound", f, format!("< {hi}"), &got, state));
            }
        }
    } else if let Some((x, y, z, l, n, p)) = flow_prerelease(tag) {
        if at_tag_clean {
            stats.bump("clause4_evaluated");
            let want = if f == "semver" {
                format!("{x}.{y}.{z}-{l}.{n}{}", p.as_ref().map(|p| format!(".post.{p}")).unwrap_or_default())
            } else {
                let lab = match l.as_str() {
                    "alpha" => "a",
                    "beta" => "b",
                    _ => "rc",
                };
                format!("{x}.{y}.{z}{lab}{n}{}", p.map(|p| format!(".post{p}")).unwrap_or_default())
            };
            if got != want {
                viol.push(mk("clause4-prerelease-tag-unchanged", f, &want, &got, state));
            }
        }
    }
    Some(got)
}

pub fn execute(ctx: &Ctx, scv: &serde_json::Value, rd: &RunDir, stats: &mut Stats) -> HResult<Vec<Violation>> {
    let sc: Scenario = serde_json::from_value(scv.clone()).map_err(|e| HarnessError(format!("bad C03 scenario: {e}")))?;
    let mut w = World::create(&rd.repo(), &rd.home(), sc.actors.clone())?;
    rd.set_plan("");
    w.apply(&Op::Commit { actor: 0, dt: 0, adt: 0, with_file: false })?;
    w.apply(&Op::Tag { name: sc.first_tag.clone(), kind: TagKind::Light, target: None, actor: 0, dt: 0 })?;
    stats.event(format!("scenario first_tag={} flags={:?} now={} step={}", sc.first_tag, sc.flags, sc.sim_now, sc.now_step));
    let mut now = sc.sim_now;
    let mut viol: Vec<Violation> = vec![];
    let mut records: Vec<Record> = vec![];
    // release tag -> (branch it was produced on, were the run's flags the ones that produced it)
    let mut tag_origin: std::collections::BTreeMap<String, Option<String>> = std::collections::BTreeMap::new();
    let preset = flag_val(&sc.flags, "--schema").unwrap_or("default").to_string();
    let explicit_mode = flag_val(&sc.flags, "--post-mode");
    let custom_rules = flag_val(&sc.flags, "--branch-rules").is_some();
    let nsteps = sc.steps.len();

    for (i, step) in sc.steps.iter().chain(std::iter::once(&Step::Observe)).enumerate() {
        match step {
            Step::W(op) => {
                let r = w.apply(op)?;
                stats.event(format!("step {i} {op:?} => {r}"));
            }
            Step::FinalRelease { bump } => {
                // the next final release after the current base tag, placed on HEAD
                let e = c02::expect(&w, "auto");
                let base = e.acceptable.iter().next().cloned();
                if let (Some(_), Some(t)) = (w.head_commit(), base) {
                    if let Some((x, y, z)) = final_xyz(&t).or_else(|| flow_prerelease(&t).map(|p| (p.0, p.1, p.2))) {
                        let name = match bump {
                            0 => format!("v{x}.{y}.{}", add_one(&z)),
                            1 => format!("v{x}.{}.0", add_one(&y)),
                            _ => format!("v{}.0.0", add_one(&x)),
                        };
                        let r = w.apply(&Op::Tag { name: name.clone(), kind: TagKind::Light, target: None, actor: 0, dt: 1 })?;
                        stats.event(format!("step {i} final-release {name} => {r}"));
                    }
                }
            }
            Step::Release { annotated, pep } => {
                if w.head_commit().is_none() {
                    continue;
                }
                // the documented release step: tag HEAD with the public part of flow's own output
                let mut rf: Vec<String> = vec![];
                for k in ["--post-mode", "--branch-rules", "--pre-release-label", "--pre-release-num", "--hash-branch-len"] {
                    if let Some(v) = flag_val(&sc.flags, k) {
                        rf.extend([k.to_string(), v.to_string()]);
                    }
                }
                let o = run_flow(ctx, rd, &w, &rf, if *pep { "pep440" } else { "semver" }, now, stats);
                if !o.ok() {
                    stats.event(format!("step {i} release: flow failed: {}", short(&o.err_str(), 200)));
                    continue;
                }
                let line = o.out_str().trim().to_string();
                let public = line.split('+').next().unwrap_or("").to_string();
                let public = match public.find(".dev") {
                    Some(p) => public[..p].to_string(),
                    None => public,
                };
                if flow_prerelease(&public).is_none() {
                    stats.event(format!("step {i} release: {public:?} is not a pre-release shape, nothing tagged"));
                    continue;
                }
                let name = format!("v{public}");
                let kind = if *annotated { TagKind::Annot } else { TagKind::Light };
                let r = w.apply(&Op::Tag { name: name.clone(), kind, target: None, actor: 0, dt: 1 })?;
                if r.starts_with("tag ") {
                    tag_origin.insert(name.clone(), w.head_branch());
                }
                stats.bump("release_tags_from_flow_output");
                stats.event(format!("step {i} release {name} => {r}"));
            }
            Step::Observe => {
                let last = i == nsteps;
                if last {
                    w.validate()?;
                    stats.bump("model_validated_against_plumbing");
                }
                let e = c02::expect(&w, "auto");
                let Some(h) = e.head else { continue };
                stats.bump("observations");
                now = (now + sc.now_step).min(4_294_967_295);
                stats.time(now);
                let outs: Vec<(usize, &str, crate::proc::Outcome)> = [(0usize, "semver"), (1, "pep440")]
                    .iter()
                    .map(|(k, f)| (*k, *f, run_flow(ctx, rd, &w, &sc.flags, f, now, stats)))
                    .collect();
                for (_, f, o) in &outs {
                    stats.event(format!("step {i} observe {f} now={now} -> {} {:?} {}", o.status_str(), short(&o.out_str(), 200), short(&o.err_str(), 200)));
                }
                if e.nearest.len() != 1 || e.acceptable.len() != 1 {
                    stats.bump(if e.nearest.is_empty() { "no_base_tag" } else { "ambiguous_base_tag" });
                    continue;
                }
                let tc = *e.nearest.iter().next().unwrap();
                let repo_tag = e.acceptable.iter().next().unwrap().clone();
                let tag = flag_val(&sc.flags, "--tag-version").map(|s| s.to_string()).unwrap_or(repo_tag);
                let dist = w.ancestors(h).difference(&w.ancestors(tc)).count() as u64;
                let dirty = w.is_dirty();
                let branch = w.head_branch();
                // effective post mode as far as the model can know it
                let commit_mode = match explicit_mode {
                    Some("commit") => true,
                    Some(_) => false,
                    // zerv's `release/*` rule matches every branch that merely starts with "release"
                    // (prefix test without the slash), so the mode is only known outside that prefix
                    None => !custom_rules && !branch.as_deref().map(|b| b.starts_with("release")).unwrap_or(false),
                };
                let mut rec = Record { step: i, branch: branch.clone(), head: h, tag: tag.clone(), distance: dist, dirty, commit_mode, out: [None, None] };
                let at_tag_clean = dist == 0 && !dirty;
                let state = format!("tag={tag} distance={dist} dirty={dirty} branch={branch:?} preset={preset} flags={:?} now={now}", sc.flags);
                let tag_shape = tag_shape_of(&tag);
                stats.distinct_key(&format!(
                    "{tag_shape}|{}|{}|{dirty}|{preset}|{:?}|{:?}|{:?}",
                    match branch.as_deref() { None => "detached", Some("main") => "main", Some("develop") => "develop", Some(b) if b.starts_with("release/") => "release", Some(b) if b.starts_with("feature/") => "feature", Some(b) if b.starts_with("hotfix/") => "hotfix", _ => "other" },
                    dist.min(6),
                    explicit_mode, flag_val(&sc.flags, "--hash-branch-len"), custom_rules
                ));
                for (k, f, o) in &outs {
                    rec.out[*k] = judge_one(f, o, &tag, at_tag_clean, &state, stats, &mut viol);
                }
                // clause 3 over the recorded history
                // clause 3: after a final tag, or after a pre-release tag that flow itself produced on
                // this very branch (then label and number of the tag are this branch's own)
                let own_prerelease_tag = flow_prerelease(&rec.tag).is_some() && rec.branch.is_some() && tag_origin.get(&rec.tag) == Some(&rec.branch);
                if rec.commit_mode && (final_xyz(&rec.tag).is_some() || own_prerelease_tag) {
                    let chain = first_parent_chain(&w, h);
                    for old in &records {
                        // (a detached HEAD has no branch name: two detached observations on one chain count as
                        // the same line of development; flow's id is then derived from the absent name)
                        if old.commit_mode && old.branch == rec.branch && old.tag == rec.tag && old.distance < rec.distance && chain.contains(&old.head) {
                            for k in 0..2 {
                                let f = if k == 0 { "semver" } else { "pep440" };
                                if let (Some(a), Some(b)) = (&old.out[k], &rec.out[k]) {
                                    if let (Some(pa), Some(pb)) = (parse_out(f, a), parse_out(f, b)) {
                                        stats.bump("clause3_pairs_evaluated");
                                        if cmp_parsed(&pa, &pb) != Ordering::Less {
                                            viol.push(mk(
                                                "clause3-more-commits-greater",
                                                f,
                                                format!("{a} < {b}"),
                                                format!("{a} >= {b}"),
                                                format!("distance {} (step {}, dirty={}) -> {} (step {}, dirty={}); {state}", old.distance, old.step, old.dirty, rec.distance, rec.step, rec.dirty),
                                            ));
                                        }
                                    }
                                }
                            }
                        }
                    }
                }
                if last && stats.samples.is_empty() {
                    stats.samples.push(serde_json::json!({
                        "first_tag": sc.first_tag, "flags": sc.flags, "history": w.log, "state": state,
                        "semver": rec.out[0], "pep440": rec.out[1],
                    }));
                }
                records.push(rec);
                // keep observing after a violation (a listed finding must not hide later states),
                // but bound the report
                if viol.len() >= 24 {
                    break;
                }
            }
        }
    }
    // ---- the override-only family: same flags, same clock, no repository
    let mut prev: Option<(NoneState, [Option<String>; 2])> = None;
    let mut chain_tag: Option<String> = None;
    for (ni, ns_raw) in sc.none_states.iter().enumerate() {
        if viol.len() >= 24 {
            break;
        }
        // "<<PREV>>": the tag is the public part of what flow printed for the state before the chain
        let mut ns_owned = ns_raw.clone();
        let own_tag = ns_raw.tag == "<<PREV>>";
        if own_tag {
            let first_of_chain = ni == 0 || sc.none_states[ni - 1].tag != "<<PREV>>";
            if first_of_chain {
                chain_tag = prev.as_ref().and_then(|(_, o)| o[0].clone()).and_then(|line| {
                    let public = line.split('+').next().unwrap_or("").to_string();
                    let public = match public.find(".dev.") {
                        Some(p) => public[..p].to_string(),
                        None => public,
                    };
                    flow_prerelease(&public).map(|_| format!("v{public}"))
                });
            }
            match &chain_tag {
                Some(t) => ns_owned.tag = t.clone(),
                None => {
                    prev = None;
                    continue;
                }
            }
        }
        let ns = &ns_owned;
        now = (now + sc.now_step).min(4_294_967_295);
        let dist = if ns.dirty == "--clean" { 0 } else { ns.distance.unwrap_or(0) };
        let dirty = ns.dirty == "--dirty";
        let at_tag_clean = dist == 0 && !dirty;
        let commit_mode = match explicit_mode {
            Some("commit") => true,
            Some(_) => false,
            None => !custom_rules && !ns.branch.starts_with("release"),
        };
        let state = format!("source=none tag={} distance={dist} dirty={dirty} ({:?}) branch={:?} preset={preset} flags={:?} now={now}", ns.tag, ns.dirty, ns.branch, sc.flags);
        let mut outs: [Option<String>; 2] = [None, None];
        for (k, f) in [(0usize, "semver"), (1, "pep440")] {
            let mut args: Vec<String> = vec![
                "flow".into(), "--source".into(), "none".into(), "--tag-version".into(), ns.tag.clone(), "--bumped-branch".into(), ns.branch.clone(),
                "--bumped-commit-hash".into(), "g0123456789abcdef".into(), "--output-format".into(), f.into(),
            ];
            if let Some(d) = ns.distance {
                if ns.dirty != "--clean" {
                    args.extend(["--distance".into(), d.to_string()]);
                }
            }
            if !ns.dirty.is_empty() {
                args.push(ns.dirty.clone());
            }
            let mut fl = sc.flags.clone();
            if let Some(i) = fl.iter().position(|f| f == "--tag-version") {
                fl.drain(i..(i + 2).min(fl.len()));
            }
            args.extend(fl);
            let a: Vec<&str> = args.iter().map(|s| s.as_str()).collect();
            let o = run_zerv(ctx, rd, &ZervCall::new(&a, Path::new("/"), now), stats);
            stats.event(format!("none-state {ni} {f} {state} -> {} {:?} {}", o.status_str(), short(&o.out_str(), 200), short(&o.err_str(), 200)));
            outs[k] = judge_one(f, &o, &ns.tag, at_tag_clean, &state, stats, &mut viol);
        }
        stats.bump("override_states");
        stats.distinct_key(&format!("none|{}|{}|{}|{dirty}|{preset}|{:?}|{:?}|{custom_rules}", tag_shape_of(&ns.tag), if ns.branch.starts_with("release/") { "release" } else if ns.branch == "main" { "main" } else { "other" }, dist.min(11), explicit_mode, flag_val(&sc.flags, "--hash-branch-len")));
        // clause 3 between successive rungs of a distance ladder
        if let Some((p, pouts)) = &prev {
            let pd = p.distance.unwrap_or(0);
            if commit_mode && (final_xyz(&ns.tag).is_some() || (own_tag && flow_prerelease(&ns.tag).is_some())) && p.tag == ns.tag && p.branch == ns.branch && p.dirty == ns.dirty && ns.dirty != "--clean" && pd < dist {
                for k in 0..2 {
                    let f = if k == 0 { "semver" } else { "pep440" };
                    if let (Some(a), Some(b)) = (&pouts[k], &outs[k]) {
                        if let (Some(pa), Some(pb)) = (parse_out(f, a), parse_out(f, b)) {
                            stats.bump("clause3_pairs_evaluated");
                            if cmp_parsed(&pa, &pb) != Ordering::Less {
                                viol.push(mk("clause3-more-commits-greater", f, format!("{a} < {b}"), format!("{a} >= {b}"), format!("distance {pd} -> {dist}; {state}")));
                            }
                        }
                    }
                }
            }
        }
        prev = Some((ns.clone(), outs));
    }
    stats.git_spawns += w.nspawn;
    if w.t_min <= w.t_max {
        stats.time(w.t_min);
        stats.time(w.t_max);
    }
    Ok(viol)
}

pub fn shrink(scv: &serde_json::Value) -> Vec<serde_json::Value> {
    let Ok(sc) = serde_json::from_value::<Scenario>(scv.clone()) else { return vec![] };
    let mut out: Vec<Scenario> = vec![];
    let n = sc.steps.len();
    let mut chunk = n / 2;
    while chunk >= 1 {
        let mut i = 0;
        while i < n {
            let mut s = sc.clone();
            s.steps.drain(i..(i + chunk).min(n));
            out.push(s);
            i += chunk;
        }
        chunk /= 2;
    }
    for i in 0..n {
        if let Step::W(op) = &sc.steps[i] {
            for alt in c02::simplify_op(op) {
                let mut s = sc.clone();
                s.steps[i] = Step::W(alt);
                out.push(s);
            }
        }
    }
    if !sc.none_states.is_empty() {
        let mut s = sc.clone();
        s.none_states.clear();
        out.push(s);
        for i in 0..sc.none_states.len() {
            let mut s = sc.clone();
            s.none_states.remove(i);
            out.push(s);
        }
        let mut s = sc.clone();
        s.steps.clear();
        out.push(s);
    }
    // drop flag pairs
    let mut i = 0;
    while i + 1 < sc.flags.len() {
        let mut s = sc.clone();
        s.flags.drain(i..i + 2);
        out.push(s);
        i += 2;
    }
    if sc.first_tag != "v1.0.0" {
        let mut s = sc.clone();
        s.first_tag = "v1.0.0".into();
        out.push(s);
    }
    if sc.actors.len() > 1 || sc.actors.iter().any(|a| a.clock != 1_000_000_000) {
        let mut s = sc.clone();
        s.actors = vec![Actor { clock: 1_000_000_000, tz: "+0000".into() }];
        out.push(s);
    }
    if sc.sim_now != 2_000_000_000 || sc.now_step != 0 {
        let mut s = sc.clone();
        s.sim_now = 2_000_000_000;
        s.now_step = 0;
        out.push(s);
    }
    out.into_iter().map(|s| serde_json::to_value(s).unwrap()).collect()
}

#[cfg(test)]
mod tests {
    use super::*;
    #[test]
    fn helpers() {
        assert_eq!(add_one("0"), "1");
        assert_eq!(add_one("9"), "10");
        assert_eq!(add_one("1299"), "1300");
        assert_eq!(add_one("2147483647"), "2147483648");
        assert!(final_xyz("v1.2.3").is_some());
        assert!(final_xyz("1.2.3-rc.1").is_none());
        assert!(final_xyz("1.2").is_none());
        assert!(flow_prerelease("v1.0.1-rc.1.post.2").is_some());
        assert!(flow_prerelease("1.0.1-alpha.12345").is_some());
        assert!(flow_prerelease("1.0.1-alpha.12345.post.2.dev.5").is_none());
        assert!(flow_prerelease("1.0.1-x.1").is_none());
        assert!(flow_prerelease("1.0.1").is_none());
    }
}
