//! zsim – deterministic simulation driver for the zerv properties (see /verif/DESIGN.md).
//!
//!   zsim run <ID> <quick|thorough> [--runs N] [--workers N] [--digests FILE] [--no-evidence]
//!   zsim replay <file>
//!   zsim selftest seams
//!
//! Exit codes: 0 property held on everything explored (or only known findings);
//!             1 violation (a line `VIOLATION property=<ID> replay=<path>` is printed);
//!             2 harness error (never silently 0).

#![allow(dead_code)]
mod argvgen;
mod c02;
mod c03;
mod c12;
mod c13;
mod c14;
mod driver;
mod findings;
mod names;
mod proc;
mod rng;
mod sim;
mod ver;
mod world;
mod zron;

use sim::*;
use std::path::PathBuf;

fn usage() -> ! {
    eprintln!("usage: zsim run <ID> <quick|thorough> [--runs N] [--workers N] [--digests FILE] | zsim replay <file> | zsim selftest seams");
    std::process::exit(2)
}

fn env_path(k: &str, default: &str) -> PathBuf {
    std::env::var_os(k).map(PathBuf::from).unwrap_or_else(|| PathBuf::from(default))
}

fn main() {
    proc::ignore_sigpipe();
    let args: Vec<String> = std::env::args().collect();
    if args.len() < 2 {
        usage();
    }
    let verif_dir = env_path("ZSIM_VERIF_DIR", "/verif");
    let seed: u64 = std::env::var("VERIF_SEED").ok().and_then(|s| s.trim().parse::<i128>().ok()).map(|v| v as u64).unwrap_or(1);
    let scratch_base = env_path("ZSIM_SCRATCH", "/dev/shm");
    let root = scratch_base.join(format!("zsim-{}", std::process::id()));
    let mut ctx = Ctx {
        zerv: env_path("ZSIM_ZERV", "/verif/.cache/zerv-target/debug/zerv"),
        shim: env_path("ZSIM_SHIM", "/verif/.cache/clock.so"),
        proxy: env_path("ZSIM_PROXY", "/verif/zsim/target/release/zsim-git"),
        root: root.clone(),
        tier: Tier::Quick,
        seed,
        verif_dir,
    };
    for p in [&ctx.zerv, &ctx.shim, &ctx.proxy] {
        if !p.exists() {
            eprintln!("HARNESS-ERROR: missing artefact {p:?} (run ./setup and ./check)");
            std::process::exit(2);
        }
    }
    let _ = std::fs::remove_dir_all(&root);
    if let Err(e) = std::fs::create_dir_all(&root) {
        eprintln!("HARNESS-ERROR: cannot create scratch root {root:?}: {e}");
        std::process::exit(2);
    }
    let code = match args[1].as_str() {
        "run" => {
            if args.len() < 4 {
                usage();
            }
            ctx.tier = match args[3].as_str() {
                "quick" => Tier::Quick,
                "thorough" => Tier::Thorough,
                _ => usage(),
            };
            let mut opts = driver::Opts::default();
            let mut i = 4;
            while i < args.len() {
                match args[i].as_str() {
                    "--runs" => {
                        opts.runs = args.get(i + 1).and_then(|s| s.parse().ok());
                        i += 1;
                    }
                    "--workers" => {
                        opts.workers = args.get(i + 1).and_then(|s| s.parse().ok());
                        i += 1;
                    }
                    "--digests" => {
                        opts.digests = args.get(i + 1).map(PathBuf::from);
                        i += 1;
                    }
                    "--cap" => {
                        opts.cap_secs = args.get(i + 1).and_then(|s| s.parse().ok());
                        i += 1;
                    }
                    "--no-evidence" => opts.no_evidence = true,
                    "--no-shrink" => opts.no_shrink = true,
                    _ => usage(),
                }
                i += 1;
            }
            driver::run(&ctx, &args[2], &opts)
        }
        "replay" => {
            if args.len() < 3 {
                usage();
            }
            driver::replay(&mut ctx, &PathBuf::from(&args[2]))
        }
        "selftest" => driver::selftest_seams(&ctx),
        _ => usage(),
    };
    let _ = std::fs::remove_dir_all(&root);
    std::process::exit(code)
}
