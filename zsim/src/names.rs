//! Seeded name alphabets: tag templates whose validity class is fixed by construction from the
//! two grammars, and branch names from the rule-relevant, punctuated, non-ASCII and long
//! classes (DESIGN.md §3.2 "Names").

use crate::rng::Rng;

pub struct TagTemplate {
    pub t: &'static str,
    pub sem: bool,
    pub pep: bool,
}

const fn tt(t: &'static str, sem: bool, pep: bool) -> TagTemplate {
    TagTemplate { t, sem, pep }
}

/// Fields: {X} {Y} {Z} release numbers, {N} {M} small naturals, {E} epoch (>= 1).
/// Strings on which the grammars / zerv's parsers are debatable are deliberately absent.
pub const TAG_TEMPLATES: &[TagTemplate] = &[
    // valid in both grammars
    tt("{X}.{Y}.{Z}", true, true),
    tt("v{X}.{Y}.{Z}", true, true),
    tt("{X}.{Y}.{Z}-rc.{N}", true, true),
    tt("v{X}.{Y}.{Z}-rc.{N}", true, true),
    tt("v{X}.{Y}.{Z}-alpha.{N}", true, true),
    tt("{X}.{Y}.{Z}-beta.{N}", true, true),
    tt("{X}.{Y}.{Z}-alpha", true, true),
    tt("{X}.{Y}.{Z}-a.{N}", true, true),
    tt("v{X}.{Y}.{Z}-rc.{N}.post.{M}", true, true),
    tt("{X}.{Y}.{Z}-alpha.{N}.post.{M}", true, true),
    tt("{X}.{Y}.{Z}+build.{N}", true, true),
    tt("{X}.{Y}.{Z}-{N}", true, true),
    tt("{X}.{Y}.{Z}-dev.{N}", true, true),
    tt("{X}.{Y}.{Z}-post.{N}", true, true),
    tt("{X}.{Y}.{Z}-rc-{N}", true, true),
    tt("v{X}.{Y}.{Z}+exp.sha.5114f85", true, true),
    // SemVer only
    tt("{X}.{Y}.{Z}-x.y", true, false),
    tt("v{X}.{Y}.{Z}-SNAPSHOT", true, false),
    tt("{X}.{Y}.{Z}-alpha.beta", true, false),
    tt("{X}.{Y}.{Z}-0.3.{N}", true, false),
    tt("{X}.{Y}.{Z}-x-y-z.--", true, false),
    tt("{X}.{Y}.{Z}+21AF26D3----117B344092BD", true, false),
    // PEP 440 only
    tt("{X}.{Y}", false, true),
    tt("v{X}.{Y}", false, true),
    tt("{E}", false, true),
    tt("{X}.{Y}.{Z}.{N}", false, true),
    tt("{X}.{Y}.{Z}rc{N}", false, true),
    tt("v{X}.{Y}.{Z}a{N}", false, true),
    tt("{X}.{Y}b{N}", false, true),
    tt("{E}!{X}.{Y}.{Z}", false, true),
    tt("{X}.{Y}.{Z}.post{N}", false, true),
    tt("{X}.{Y}.{Z}.dev{N}", false, true),
    tt("{X}.{Y}.{Z}.post{N}.dev{M}", false, true),
    tt("{X}.{Y}.{Z}rc{N}+local.{M}", false, true),
    tt("0{X}.{Y}.{Z}", false, true),
    tt("V{X}.{Y}.{Z}", false, true),
    tt("{X}.{Y}.{Z}_rc{N}", false, true),
    // neither
    tt("build-{N}", false, false),
    tt("latest", false, false),
    tt("nightly-{N}", false, false),
    tt("rel/{X}.{Y}.{Z}", false, false),
    tt("release-{X}.{Y}.{Z}", false, false),
    tt("x{X}.{Y}.{Z}", false, false),
    tt("{X}.{Y}.{Z}-", false, false),
    tt("v", false, false),
    tt("deploy/prod", false, false),
    tt("发布-{N}", false, false),
    tt("ünï/{X}.{Y}.{Z}", false, false),
    tt("релиз_{X}.{Y}.{Z}_с_очень_длинным_названием_которое_занимает_много_байтов_{N}", false, false),
];

pub fn small(r: &mut Rng) -> u64 {
    match r.below(20) {
        0 => 0,
        1..=12 => r.below(4),
        13..=17 => r.below(30),
        18 => r.below(1000),
        // capped below 2^31: wider numbers hit zerv's version *parsers* (u32 fields), which is
        // C07/C09 territory, not a history question
        _ => *r.pick(&[2147483647u64, 65535, 100000, 20240131]),
    }
}

pub fn instantiate(t: &str, r: &mut Rng) -> String {
    let mut s = t.to_string();
    for f in ["{X}", "{Y}", "{Z}", "{N}", "{M}"] {
        while s.contains(f) {
            s = s.replacen(f, &small(r).to_string(), 1);
        }
    }
    while s.contains("{E}") {
        s = s.replacen("{E}", &(1 + r.below(3)).to_string(), 1);
    }
    s
}

/// A tag name drawn with the given class weights [both, sem-only, pep-only, neither].
pub fn tag_name(r: &mut Rng, w: &[u32; 4]) -> (String, bool, bool) {
    let cls = r.weighted(w);
    let want = match cls {
        0 => (true, true),
        1 => (true, false),
        2 => (false, true),
        _ => (false, false),
    };
    let pool: Vec<&TagTemplate> = TAG_TEMPLATES.iter().filter(|t| (t.sem, t.pep) == want).collect();
    let t = *r.pick(&pool);
    (instantiate(t.t, r), t.sem, t.pep)
}

/// Several tags that share one X.Y.Z and differ in the suffix only: the ordering of the tags on
/// one commit (numeric vs alphanumeric identifiers, rc.9 vs rc.10, pre vs post, build metadata,
/// `v` prefix) decides which *name* is the highest.
pub fn sibling_tags(r: &mut Rng) -> Vec<String> {
    let (x, y, z) = (small(r), small(r), small(r));
    let base = format!("{x}.{y}.{z}");
    let n1 = *r.pick(&[1u64, 2, 9]);
    let pool: Vec<String> = vec![
        base.clone(),
        format!("v{base}"),
        format!("{base}-rc.{n1}"),
        format!("{base}-rc.{}", n1 + 1),
        format!("v{base}-rc.{}", n1 * 10 + 1),
        format!("{base}-rc.{n1}.post.{}", r.below(12)),
        format!("{base}-alpha.{}", r.below(12)),
        format!("{base}-alpha"),
        format!("{base}-beta.{}", 9 + r.below(3)),
        format!("{base}-a.{}", r.below(3)),
        format!("{base}-{}", r.below(12)),
        format!("{base}-dev.{}", r.below(12)),
        format!("{base}-post.{}", r.below(12)),
        format!("{base}+build.{}", r.below(12)),
        format!("v{base}+exp.sha.5114f85"),
        format!("{base}-rc-{n1}"),
        format!("{base}-x.y"),
        format!("{base}-alpha.beta"),
        format!("{base}rc{n1}"),
        format!("{base}.post{}", r.below(12)),
        format!("{base}.dev{}", r.below(12)),
        format!("1!{base}"),
        format!("{base}.0"),
        format!("0{base}"),
    ];
    let k = 2 + r.below(5) as usize;
    let mut out: Vec<String> = vec![];
    while out.len() < k {
        let t = r.pick(&pool).clone();
        if !out.contains(&t) {
            out.push(t);
        }
    }
    out
}

/// A branch name of 170-240 bytes made of multi-byte characters, with a seeded ASCII offset so that
/// every byte position is inside a character for some seed.
pub fn long_multibyte_branch(r: &mut Rng) -> String {
    let unit = *r.pick(&["日本", "é", "ж", "🚀", "ｆ"]);
    let mut s = String::from("wip/");
    for k in 0..r.below(4) {
        s.push((b'a' + k as u8) as char);
    }
    let target = 170 + r.below(60) as usize;
    while s.len() + unit.len() <= target {
        s.push_str(unit);
    }
    s
}

pub const RULE_BRANCHES: &[&str] = &[
    "develop", "release/1", "release/1/x", "release/x", "release/2.3", "feature/login", "feature/x/y/z", "hotfix/urgent",
    "dev", "staging", "release", "release/", "releases/1", "bugfix/77",
];

pub fn branch_name(r: &mut Rng, classes: u32) -> String {
    // classes bitmask: 1 rule-relevant, 2 punctuation, 4 non-ascii, 8 long, 16 plain
    let mut opts = vec![];
    for b in [1u32, 2, 4, 8, 16] {
        if classes & b != 0 {
            opts.push(b);
        }
    }
    if opts.is_empty() {
        opts.push(16);
    }
    match *r.pick(&opts) {
        1 => {
            let b = *r.pick(RULE_BRANCHES);
            let b = b.trim_end_matches('/');
            if r.chance(1, 3) {
                format!("{b}-{}", r.below(50))
            } else {
                b.to_string()
            }
        }
        2 => {
            let parts = ["a_b", "x-y", "p.q", "a+b", "at@x", "pc%20", "bang!", "com,ma", "UPPER", "MiXed", "007", "-lead", "a--b", "eq=x", "#hash", "semi;colon", "'q'", "tick`", "dollar$", "amp&", "(paren)", "{brace}"];
            let n = 1 + r.below(3);
            let mut v = vec![];
            for _ in 0..n {
                v.push(*r.pick(&parts));
            }
            let s = v.join("/");
            if s.starts_with('-') { format!("b{s}") } else { s }
        }
        4 => {
            let parts = ["ünï", "日本語", "ветка", "ſ_x", "é", "ｆｕｌｌ", "١٢٣", "emoji-🚀", "a\u{0301}", "İ", "ß"];
            let n = 1 + r.below(2);
            let mut v = vec![];
            for _ in 0..n {
                v.push(*r.pick(&parts));
            }
            format!("feature/{}", v.join("/"))
        }
        8 => {
            let n = 60 + r.below(150) as usize;
            let mut s = String::from("long/");
            if r.chance(1, 2) {
                // long and non-ASCII: multi-byte characters at every byte offset class (file names are
                // limited to 255 bytes per component)
                let unit = *r.pick(&["日本", "é", "ж", "🚀"]);
                for k in 0..r.below(3) {
                    s.push((b'a' + k as u8) as char);
                }
                while s.len() + unit.len() < 5 + (n.min(230)) {
                    s.push_str(unit);
                }
            } else {
                for i in 0..n {
                    s.push((b'a' + ((i as u64 + r.below(3)) % 26) as u8) as char);
                }
            }
            s
        }
        _ => format!("b{}", r.below(100)),
    }
}

#[cfg(test)]
mod tests {
    use super::*;
    use crate::ver;
    #[test]
    fn template_classes_hold_for_every_instantiation() {
        let mut r = Rng::new(7);
        for t in TAG_TEMPLATES {
            for _ in 0..300 {
                let s = instantiate(t.t, &mut r);
                assert_eq!(ver::parse_semver(&s).is_some(), t.sem, "semver class of {s} ({})", t.t);
                assert_eq!(ver::parse_pep440(&s).is_some(), t.pep, "pep440 class of {s} ({})", t.t);
            }
        }
    }
}
