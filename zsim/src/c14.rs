//! C14 – output is deterministic and independent of the environment.
//! Environment-perturbation replay: one scenario, one simulated instant, a reference execution
//! and 10–14 perturbed executions in fresh processes (TZ, locale, cwd / -C spelling, unrelated
//! environment variables, plain repetition); plus a second instant to turn "apart from the
//! documented wall-clock dev timestamp" into a checked statement, and an independent UTC
//! calendar for every date-derived component.

use crate::argvgen;
use crate::c02;
use crate::c13::stdin_docs;
use crate::proc::{Outcome, Stdin};
use crate::rng::Rng;
use crate::sim::*;
use crate::world::*;
use serde::{Deserialize, Serialize};
use std::ffi::OsString;
use std::path::PathBuf;

pub const PROP: &str = "C14";

#[derive(Serialize, Deserialize, Clone, Debug, Default, PartialEq)]
pub struct Perturb {
    pub tz: Option<String>,
    pub lang: Option<String>,
    pub lc_all: Option<String>,
    pub lc_time: Option<String>,
    /// 0 reference (`-C <abs>` from /), 1 cwd = repo, 2 cwd = repo/sub, 3 relative -C from the
    /// parent, 4 `-C <abs>/`, 5 `-C` through a symlink, 6 `-C <abs>/.` , 7 `-C <abs>/sub/..`
    pub cwd: u8,
    pub noise: Vec<(String, String)>,
    pub unset_home: bool,
    /// 0 none; 1 stdout is a regular file; 2 the binary is started through a symlink; 3 umask 077;
    /// 4 all three; 5 one usable CPU; 6 two usable CPUs
    #[serde(default)]
    pub process: u8,
    pub label: String,
}

#[derive(Serialize, Deserialize, Clone, Debug)]
pub struct Scenario {
    pub actors: Vec<Actor>,
    pub ops: Vec<Op>,
    /// "git" | "stdin" | "none"
    pub source: String,
    pub stdin_doc: String,
    /// without -C; `$REPO` allowed in values
    pub argv: Vec<String>,
    pub sim_now: i64,
    pub delta: i64,
    pub perturbs: Vec<Perturb>,
    /// the directory handed to -C is a sub-directory of the work tree (zerv must refuse it the
    /// same way from every cwd) instead of the repository root
    #[serde(default)]
    pub target_sub: bool,
}

pub const TZS: &[(&str, i32)] = &[
    // (TZ value, UTC offset in minutes at any instant; i32::MIN = unknown / DST dependent)
    ("Pacific/Kiritimati", 840),
    ("Pacific/Pago_Pago", -660),
    ("Asia/Kolkata", 330),
    ("America/New_York", i32::MIN),
    ("XXX-14", 840),
    ("XXX+11", -660),
    ("IST-5:30", 330),
    ("Europe/London", i32::MIN),
    ("Australia/Lord_Howe", i32::MIN),
    ("garbage/Zone", 0),
    ("", 0),
    (":UTC", 0),
    ("Asia/Kathmandu", 345),
];

pub const LOCALES: &[&str] = &["C", "C.UTF-8", "POSIX", "tr_TR.UTF-8", "de_DE.ISO-8859-1", "garbage", "", "ja_JP.eucJP", "ar_SA.UTF-8"];

pub fn noise_vars(r: &mut Rng) -> Vec<(String, String)> {
    let tempting: &[(&str, &str)] = &[
        ("SOURCE_DATE_EPOCH", "315532800"), ("CI", "true"), ("GITHUB_REF_NAME", "some/other-branch"), ("GITHUB_REF", "refs/tags/v9.9.9"),
        ("GITHUB_SHA", "0123456789abcdef0123456789abcdef01234567"), ("BRANCH_NAME", "other"), ("CI_COMMIT_TAG", "v8.8.8"),
        ("CI_COMMIT_REF_NAME", "release/9"), ("USER", "nobody"), ("LOGNAME", "nobody"), ("TERM", "xterm-256color"), ("COLUMNS", "7"),
        ("LINES", "3"), ("NO_COLOR", "1"), ("CLICOLOR_FORCE", "1"), ("FORCE_COLOR", "3"), ("RUST_BACKTRACE", "full"), ("PYTHONHASHSEED", "12345"),
        ("ZERV_FOO", "1"), ("ZERV_SCHEMA", "calver"), ("ZERV_OUTPUT_FORMAT", "pep440"), ("ZERV_TAG_VERSION", "v7.7.7"), ("VERSION", "6.6.6"),
        ("TMPDIR", "/nonexistent"), ("SHELL", "/bin/false"), ("PWD", "/nonexistent/pwd"), ("OLDPWD", "/"), ("EDITOR", "false"), ("PAGER", "cat"),
        ("LANGUAGE", "tr:de"), ("LC_NUMERIC", "de_DE.UTF-8"), ("LC_COLLATE", "tr_TR.UTF-8"), ("LC_CTYPE", "tr_TR.UTF-8"), ("TZDIR", "/nonexistent"),
        ("CARGO_PKG_VERSION", "5.5.5"), ("RUSTFLAGS", "-C debug-assertions"), ("MALLOC_PERTURB_", "165"), ("POSIXLY_CORRECT", "1"),
        ("CLAP_COMPLETE", "bash"), ("HOSTNAME", "ci-runner-17"),
    ];
    let n = 5 + r.below(26) as usize;
    let mut v: Vec<(String, String)> = vec![];
    for _ in 0..n {
        let (k, val) = r.pick(tempting);
        if !v.iter().any(|(kk, _)| kk == k) {
            v.push((k.to_string(), val.to_string()));
        }
    }
    while v.len() < 5 {
        v.push((format!("ZSIM_NOISE_{}", v.len()), format!("{}", r.next())));
    }
    v
}

fn gen_perturbs(r: &mut Rng, git: bool) -> Vec<Perturb> {
    let mut out = vec![];
    let n = 10 + r.below(5);
    // plain repetition first
    out.push(Perturb { label: "repeat".into(), ..Default::default() });
    // one of each family, then seeded mixtures
    out.push(Perturb { tz: Some(r.pick(TZS).0.to_string()), label: "tz".into(), ..Default::default() });
    out.push(Perturb { lang: Some(r.pick(LOCALES).to_string()), lc_all: if r.chance(1, 2) { Some(r.pick(LOCALES).to_string()) } else { None }, label: "locale".into(), ..Default::default() });
    out.push(Perturb { noise: noise_vars(r), label: "noise".into(), ..Default::default() });
    if git {
        out.push(Perturb { cwd: 1 + r.below(12) as u8, label: "cwd".into(), ..Default::default() });
    }
    while (out.len() as u64) < n {
        let mut p = Perturb { label: "mix".into(), ..Default::default() };
        if r.chance(2, 3) {
            p.tz = Some(r.pick(TZS).0.to_string());
        }
        if r.chance(1, 2) {
            p.lang = Some(r.pick(LOCALES).to_string());
        }
        if r.chance(1, 3) {
            p.lc_all = Some(r.pick(LOCALES).to_string());
        }
        if r.chance(1, 3) {
            p.lc_time = Some(r.pick(LOCALES).to_string());
        }
        if git && r.chance(1, 2) {
            p.cwd = r.below(13) as u8;
        }
        if r.chance(1, 2) {
            p.noise = noise_vars(r);
        }
        if r.chance(1, 8) {
            p.unset_home = true;
        }
        if r.chance(1, 4) {
            p.process = 1 + r.below(6) as u8;
        }
        out.push(p);
    }
    out
}

/// templates that are functions of the inputs only (no now(), get_random(), get_env())
pub const PURE_TEMPLATES: &[&str] = &[
    "{{ semver }}|{{ pep440 }}",
    "{{ hash(value=bumped_branch, length=12) }}/{{ hash_int(value=bumped_branch, length=9) }}",
    "{{ hash(value=bumped_branch, length=40) }}/{{ hash_int(value=bumped_branch, length=30) }}",
    "{{ hash_int(value=bumped_branch, length=25, allow_leading_zero=true) }}|{{ hash(value=bumped_commit_hash, length=64) }}",
    "{{ hash_int(value=bumped_branch, length=5, allow_leading_zero=true) }}",
    "{{ format_timestamp(value=bumped_timestamp, format='%Y-%m-%d %H:%M:%S') }}|{{ bumped_timestamp }}",
    "{{ format_timestamp(value=bumped_timestamp, format='%A %B %c %x %X %p %Z %z') }}",
    "{{ format_timestamp(value=last_timestamp, format='compact_datetime') }}",
    "{{ sanitize(value=bumped_branch, preset='pep440') }}-{{ sanitize(value=bumped_branch, preset='semver') }}",
    "{{ bumped_branch | upper }}{{ bumped_branch | lower }}",
    "{{ bumped_timestamp | date(format='%Y-%m-%d %H:%M') }}",
    "{{ bumped_timestamp | date(format='%Y-%m-%d %H:%M', timezone='Asia/Kolkata') }}",
    "{{ major }}.{{ minor }}.{{ patch }}+{{ distance }}.{{ bumped_commit_hash_short }}.{{ dirty }}",
    "{{ semver_obj.docker }} {{ pep440_obj.base_part }}",
    "{{ last_commit_hash }}@{{ last_timestamp }}",
];

fn gen_argv(r: &mut Rng, source: &str) -> Vec<String> {
    let sub = if r.chance(1, 2) { "version" } else { "flow" };
    let mut a: Vec<String> = vec![sub.into()];
    if source != "git" || r.chance(1, 4) {
        a.extend(["--source".into(), source.into()]);
    }
    if source == "none" {
        a.extend(["--tag-version".into(), r.pick(&["1.2.3", "v0.9.9-rc.2", "1.0.0a1", "2!1.0.post3"]).to_string()]);
        a.extend(["--bumped-branch".into(), r.pick(&["main", "feature/ünï", "release/4", "develop"]).to_string()]);
        if r.chance(3, 4) {
            a.extend(["--bumped-timestamp".into(), r.pick(&["1700000000", "1704067199", "951782400", "4102444799"]).to_string()]);
        }
        if r.chance(1, 2) {
            a.extend(["--distance".into(), r.below(5).to_string()]);
        }
        if r.chance(1, 3) {
            a.push("--dirty".into());
        }
    }
    match r.below(7) {
        0 | 1 => a.extend(["--output-format".into(), r.pick(&["semver", "pep440", "zerv"]).to_string()]),
        6 => a.extend(["--output-format".into(), "zerv".into()]), // the format that shows every reported fact
        2 | 3 => a.extend(["--output-template".into(), r.pick(PURE_TEMPLATES).to_string()]),
        _ => {}
    }
    if r.chance(1, 2) {
        let presets = if sub == "flow" { &argvgen::SCHEMAS[..11] } else { &argvgen::SCHEMAS[..21] };
        a.extend(["--schema".into(), r.pick(presets).to_string()]);
    }
    if sub == "flow" {
        if r.chance(1, 2) {
            a.extend(["--post-mode".into(), r.pick(&["commit", "tag"]).to_string()]);
        }
        if r.chance(1, 3) {
            a.extend(["--hash-branch-len".into(), (1 + r.below(9)).to_string()]);
        }
    } else {
        if r.chance(1, 4) {
            a.push(r.pick(&["--bump-patch", "--bump-minor", "--no-bump-context", "--bump-post", "--bump-dev"]).to_string());
        }
    }
    if r.chance(1, 5) {
        a.extend(["--input-format".into(), r.pick(&["auto", "semver", "pep440"]).to_string()]);
    }
    a
}

pub fn generate(r: &mut Rng, _tier: Tier, _group: u64) -> serde_json::Value {
    let source = *r.pick(&["git", "git", "git", "stdin", "none"]);
    let (mut actors, mut ops, _) = c02::gen_history(r, 5, 12);
    if source != "git" {
        ops.clear();
    } else {
        // instants chosen so that the UTC date differs from the local date in the perturbed zones:
        // put the actors' clocks within a few hours of a UTC midnight, a year end or 29 February
        let anchor = *r.pick(&[1_704_067_200i64, 1_709_164_800, 1_709_251_200, 951_782_400, 1_735_689_600, 2_145_916_800, 1_700_006_400]);
        let day = if r.chance(1, 2) { anchor } else { (actors[0].clock / 86400) * 86400 };
        for a in actors.iter_mut() {
            a.clock = day + r.range(-13 * 3600, 13 * 3600);
        }
        // most scenarios should succeed: make sure there is a plain tag early
        if r.chance(4, 5) {
            ops.insert(0, Op::Commit { actor: 0, dt: 0, adt: 0, with_file: false });
            ops.insert(1, Op::Tag { name: "v1.4.2".into(), kind: TagKind::Light, target: None, actor: 0, dt: 0 });
        }
        // now and then the nearest tagged commit carries tags of equal precedence (any of them is a right
        // answer, but it has to be the same one in every process)
        if r.chance(1, 4) {
            let (x, y, z) = (r.below(9), r.below(9), r.below(9));
            for name in [format!("{x}.{y}.{z}"), format!("v{x}.{y}.{z}"), format!("{x}.{y}.{z}+build.1")] {
                if r.chance(2, 3) {
                    ops.push(Op::Tag { name, kind: TagKind::Light, target: None, actor: 0, dt: 0 });
                }
            }
        }
        // keep commit steps small so that instants stay near the chosen midnight
        for o in ops.iter_mut() {
            match o {
                Op::Commit { dt, .. } | Op::Merge { dt, .. } | Op::Amend { dt, .. } | Op::Tag { dt, .. } => *dt = (*dt).clamp(-3600, 3600),
                _ => {}
            }
        }
    }
    let docs = stdin_docs();
    let stdin_doc = if source == "stdin" { docs[r.below(10) as usize].clone() } else { String::new() };
    let argv = gen_argv(r, source);
    let last = actors.iter().map(|a| a.clock).max().unwrap_or(1_700_000_000);
    let sim_now = match r.below(6) {
        0 => (last / 86400) * 86400 + 86399, // last second of a UTC day
        1 => 1_735_689_599,                  // last second of 2024
        2 => 1_709_251_199,                  // last second of 29 Feb 2024
        3 => last,
        _ => last + r.range(1, 40 * 3600),
    }
    .clamp(0, 4_294_000_000);
    let delta = *r.pick(&[1i64, 59, 3600, 86_400, 40_000, 31_536_000, 100_000_000]);
    let perturbs = gen_perturbs(r, source == "git");
    let target_sub = source == "git" && r.chance(1, 6);
    let sc = Scenario { actors, ops, source: source.into(), stdin_doc, argv, sim_now, delta, perturbs, target_sub };
    serde_json::to_value(sc).unwrap()
}

// ------------------------------------------------------------------------------------------
// independent UTC calendar (Howard Hinnant's civil_from_days)

pub fn civil(ts: i64) -> (i64, u32, u32, u32, u32, u32) {
    let days = ts.div_euclid(86400);
    let secs = ts.rem_euclid(86400);
    let z = days + 719_468;
    let era = z.div_euclid(146_097);
    let doe = z.rem_euclid(146_097);
    let yoe = (doe - doe / 1460 + doe / 36_524 - doe / 146_096) / 365;
    let y = yoe + era * 400;
    let doy = doe - (365 * yoe + yoe / 4 - yoe / 100);
    let mp = (5 * doy + 2) / 153;
    let d = (doy - (153 * mp + 2) / 5 + 1) as u32;
    let m = if mp < 10 { mp + 3 } else { mp - 9 } as u32;
    let y = if m <= 2 { y + 1 } else { y };
    (y, m, d, (secs / 3600) as u32, (secs % 3600 / 60) as u32, (secs % 60) as u32)
}

// ------------------------------------------------------------------------------------------
// execution

struct Exec<'a> {
    ctx: &'a Ctx,
    rd: &'a RunDir,
    sc: &'a Scenario,
    repo: PathBuf,
}

impl<'a> Exec<'a> {
    fn call(&self, argv: &[String], p: &Perturb, sim_now: i64) -> ZervCall {
        let repo_s = self.repo.to_string_lossy().to_string();
        let mut args: Vec<String> = argv.iter().map(|a| a.replace("$REPO", &repo_s)).collect();
        let mut cwd = PathBuf::from("/");
        let mut extra_env: Vec<(String, String)> = vec![];
        if self.sc.source == "git" {
            let dash_c = |args: &mut Vec<String>, v: String| {
                args.insert(1, v);
                args.insert(1, "-C".into());
            };
            // the directory zerv is pointed at
            let target = if self.sc.target_sub { self.repo.join("zsim-sub/deeper") } else { self.repo.clone() };
            let _ = std::fs::create_dir_all(target.join("zsim-child"));
            let target_s = target.to_string_lossy().to_string();
            match p.cwd {
                1 if !self.sc.target_sub => cwd = target.clone(), // no -C: upward search, same root
                2 if !self.sc.target_sub => {
                    cwd = self.repo.join("zsim-sub/deeper");
                    let _ = std::fs::create_dir_all(&cwd);
                }
                3 => {
                    cwd = target.parent().unwrap().to_path_buf();
                    dash_c(&mut args, target.file_name().unwrap().to_string_lossy().to_string());
                }
                4 => dash_c(&mut args, format!("{target_s}/")),
                5 => {
                    let link = self.rd.dir.join("link-to-target");
                    let _ = std::os::unix::fs::symlink(&target, &link);
                    dash_c(&mut args, link.to_string_lossy().to_string());
                }
                6 => dash_c(&mut args, format!("{target_s}/.")),
                7 => dash_c(&mut args, format!("{target_s}/zsim-child/..")),
                1 | 8 => {
                    cwd = target.clone();
                    dash_c(&mut args, ".".into());
                }
                2 | 9 => {
                    cwd = target.clone();
                    dash_c(&mut args, target_s.clone());
                }
                10 | 11 | 12 => {
                    // the process sits in a directory reached through a symlink; PWD (10, 11) carries the
                    // symlinked spelling as a shell would set it; -C is relative and contains `..`
                    let real_sib = self.rd.dir.join("real-sibling/inner");
                    let _ = std::fs::create_dir_all(&real_sib);
                    let far = self.rd.dir.join("far/away");
                    let _ = std::fs::create_dir_all(&far);
                    let link = far.join("link-to-inner");
                    let _ = std::os::unix::fs::symlink(&real_sib, &link);
                    cwd = link.clone();
                    // physically: <run>/real-sibling/inner ; ../.. = <run>
                    let rel_to_target = target.strip_prefix(&self.rd.dir).map(|p| p.to_string_lossy().to_string()).unwrap_or_default();
                    dash_c(&mut args, format!("../../{rel_to_target}"));
                    if p.cwd != 12 {
                        extra_env.push(("PWD".to_string(), link.to_string_lossy().to_string()));
                    }
                }
                _ => dash_c(&mut args, target_s.clone()),
            }
        }
        let mut env: Vec<(String, String)> = vec![];
        if let Some(tz) = &p.tz {
            env.push(("TZ".into(), tz.clone()));
        }
        if let Some(l) = &p.lang {
            env.push(("LANG".into(), l.clone()));
        }
        if let Some(l) = &p.lc_all {
            env.push(("LC_ALL".into(), l.clone()));
        }
        if let Some(l) = &p.lc_time {
            env.push(("LC_TIME".into(), l.clone()));
        }
        for (k, v) in &p.noise {
            env.push((k.clone(), v.clone()));
        }
        // (after the noise variables: a deliberate PWD wins over a noise PWD)
        for (k, v) in extra_env {
            env.retain(|(k2, _)| k2 != &k);
            env.push((k, v));
        }
        let stdin = if self.sc.source == "stdin" {
            Stdin::Pipe { data: self.sc.stdin_doc.as_bytes().to_vec(), chunks: vec![5, 11, 200] }
        } else {
            Stdin::Null
        };
        let exe = if p.process == 2 || p.process == 4 {
            let link = self.rd.dir.join("zerv-via-symlink");
            let _ = std::os::unix::fs::symlink(&self.ctx.zerv, &link);
            Some(link)
        } else {
            None
        };
        ZervCall {
            args: args.iter().map(OsString::from).collect(),
            cwd,
            sim_now,
            env,
            unset: if p.unset_home { vec!["HOME".into()] } else { vec![] },
            stdin,
            path: None,
            rm_cwd: false,
            stdout: if p.process == 1 || p.process == 4 { crate::proc::Stdout::TempFile } else { crate::proc::Stdout::Capture },
            stderr: crate::proc::Stdout::Capture,
            exe,
            umask: if p.process == 3 || p.process == 4 { Some(0o077) } else { None },
            cpus: match p.process {
                5 => Some(1),
                6 => Some(2),
                _ => None,
            },
        }
    }
}

fn has_arg(argv: &[String], name: &str) -> bool {
    argv.iter().any(|a| a == name || a.starts_with(&format!("{name}=")))
}

fn arg_val<'a>(argv: &'a [String], name: &str) -> Option<&'a str> {
    let mut i = 0;
    let mut v = None;
    while i < argv.len() {
        if argv[i] == name {
            v = argv.get(i + 1).map(|s| s.as_str());
        } else if let Some(r) = argv[i].strip_prefix(&format!("{name}=")) {
            v = Some(r);
        }
        i += 1;
    }
    v
}

fn mk(clause: &str, field: &str, exp: String, act: String, detail: String) -> Violation {
    Violation::new(PROP, clause, field, exp, act, detail)
}

fn same(a: &Outcome, b: &Outcome) -> bool {
    a.stdout == b.stdout && a.status == b.status
}

pub fn execute(ctx: &Ctx, scv: &serde_json::Value, rd: &RunDir, stats: &mut Stats) -> HResult<Vec<Violation>> {
    let sc: Scenario = serde_json::from_value(scv.clone()).map_err(|e| HarnessError(format!("bad C14 scenario: {e}")))?;
    let mut world: Option<World> = None;
    let repo = rd.repo();
    if sc.source == "git" {
        let mut w = World::create(&repo, &rd.home(), sc.actors.clone())?;
        for op in &sc.ops {
            if *op != Op::Observe {
                w.apply(op)?;
            }
        }
        world = Some(w);
    }
    let ex = Exec { ctx, rd, sc: &sc, repo: repo.clone() };
    rd.set_plan("");
    let mut viol = vec![];
    let reference = Perturb { label: "reference".into(), ..Default::default() };
    let base = run_zerv(ctx, rd, &ex.call(&sc.argv, &reference, sc.sim_now), stats);
    stats.bump("executions");
    stats.event(format!(
        "scenario source={} argv={:?} now={} -> {} out={} err={}",
        sc.source,
        sc.argv,
        sc.sim_now,
        base.status_str(),
        short(&norm(ctx, &base.out_str()), 1500),
        short(&norm(ctx, &base.err_str()), 300)
    ));
    if base.err_str().contains("panicked at") || matches!(base.status, crate::proc::Status::Signal(_)) {
        // a crash belongs to C13; here it would only blur the comparison
        stats.bump("reference_crashed");
        return Ok(vec![]);
    }
    stats.bump(if base.ok() { "reference_ok" } else { "reference_failed" });

    // ---- oracle 1: same instant, perturbed environment
    // plain repetition of the reference first: if that alone differs, zerv is nondeterministic from
    // process to process and the environment perturbations would only repeat the same report
    let mut nondeterministic = false;
    for rep in 0..4 {
        let o = run_zerv(ctx, rd, &ex.call(&sc.argv, &reference, sc.sim_now), stats);
        stats.bump("executions");
        stats.bump("perturb.repeat");
        if !same(&base, &o) {
            viol.push(mk(
                "env-independence",
                "repeat",
                format!("{} stdout={:?}", base.status_str(), short(&base.out_str(), 600)),
                format!("{} stdout={:?} stderr={:?}", o.status_str(), short(&o.out_str(), 600), short(&o.err_str(), 200)),
                format!("the reference execution repeated in a fresh process (repetition {rep}), same environment, same instant"),
            ));
            nondeterministic = true;
            break;
        }
    }
    // at least 10 fresh processes per scenario, also after minimisation has dropped perturbations:
    // a per-process random choice must get its chance to differ
    let reps = (10 / sc.perturbs.len().max(1)).max(1);
    for (pi, p) in sc.perturbs.iter().enumerate() {
        if nondeterministic {
            break;
        }
        let mut o = run_zerv(ctx, rd, &ex.call(&sc.argv, p, sc.sim_now), stats);
        stats.bump("executions");
        for _ in 1..reps {
            if !same(&base, &o) {
                break;
            }
            o = run_zerv(ctx, rd, &ex.call(&sc.argv, p, sc.sim_now), stats);
            stats.bump("executions");
        }
        stats.event(format!("perturb {pi} {} tz={:?} lang={:?} lc_all={:?} cwd={} noise={} -> {} out={}", p.label, p.tz, p.lang, p.lc_all, p.cwd, p.noise.len(), o.status_str(), short(&norm(ctx, &o.out_str()), 300)));
        // effectiveness of the perturbation (for the distinct count)
        let mut kinds: Vec<String> = vec![];
        if let Some(tz) = &p.tz {
            let off = TZS.iter().find(|(n, _)| n == tz).map(|(_, o)| *o).unwrap_or(0);
            let t = world.as_ref().and_then(|w| w.head_commit().map(|h| w.commits[h].ctime)).unwrap_or(sc.sim_now);
            if off != i32::MIN && off != 0 {
                let (y1, m1, d1, ..) = civil(t);
                let (y2, m2, d2, ..) = civil(t + off as i64 * 60);
                let (y3, m3, d3, ..) = civil(sc.sim_now);
                let (y4, m4, d4, ..) = civil(sc.sim_now + off as i64 * 60);
                if (y1, m1, d1) != (y2, m2, d2) || (y3, m3, d3) != (y4, m4, d4) {
                    kinds.push("tz-date-differs".into());
                    stats.bump("probe.tz_local_date_differs_from_utc");
                } else {
                    kinds.push("tz".into());
                }
            } else {
                kinds.push("tz".into());
            }
        }
        if p.lang.is_some() || p.lc_all.is_some() || p.lc_time.is_some() {
            kinds.push("locale".into());
        }
        if p.cwd != 0 && sc.source == "git" {
            kinds.push(format!("cwd{}", p.cwd));
        }
        if p.noise.len() >= 5 {
            kinds.push("noise".into());
        }
        if p.process != 0 {
            kinds.push(format!("process{}", p.process));
        }
        if kinds.is_empty() {
            kinds.push("repeat".into());
        }
        let class = format!("{}|{}|{}|{}", sc.source, sc.argv.first().cloned().unwrap_or_default(), if base.ok() { "ok" } else { "fail" }, has_arg(&sc.argv, "--output-template"));
        for k in &kinds {
            stats.distinct_key(&format!("{class}|{k}"));
            stats.bump(&format!("perturb.{}", k.trim_end_matches(char::is_numeric)));
        }
        if !same(&base, &o) {
            let mut v = mk(
                "env-independence",
                &kinds.join("+"),
                format!("{} stdout={:?}", base.status_str(), short(&base.out_str(), 600)),
                format!("{} stdout={:?} stderr={:?}", o.status_str(), short(&o.out_str(), 600), short(&o.err_str(), 200)),
                format!("perturbation #{pi}: {p:?}"),
            );
            v.narrow = Some(pi.to_string());
            viol.push(v);
        }
    }

    // ---- oracle 2: another instant, same environment
    let now2 = (sc.sim_now + sc.delta).clamp(0, 4_294_967_295);
    let o2 = run_zerv(ctx, rd, &ex.call(&sc.argv, &reference, now2), stats);
    stats.bump("executions");
    let is_flow = sc.argv.first().map(|s| s == "flow").unwrap_or(false);
    // the model used for the expectation is blind to nested tags, as zerv is (known finding
    // KF-C02-nested-tag): what is judged here is independence of the environment, not tag discovery
    let world_eff: Option<World> = world.as_ref().map(|w| {
        let mut w2 = w.clone();
        for t in w2.tags.iter_mut() {
            if t.kind == TagKind::Nested {
                t.alive = false;
            }
        }
        w2
    });
    let (model_dirty, model_dist) = match &world_eff {
        Some(w) => {
            let fmt = arg_val(&sc.argv, "--input-format").unwrap_or("auto");
            let e = c02::expect(w, fmt);
            let dist = match (e.head, e.nearest.iter().next()) {
                (Some(h), Some(&t)) => w.ancestors(h).difference(&w.ancestors(t)).count() as u64,
                _ => 0,
            };
            // several nearest commits: distance is not unique, be conservative
            (w.is_dirty(), if e.nearest.len() > 1 { 1 } else { dist })
        }
        None => {
            let doc_dirty = sc.stdin_doc.contains("dirty: Some(true)");
            let dist = if sc.source == "stdin" { if sc.stdin_doc.contains("distance: Some(0)") || sc.stdin_doc.contains("distance: None") { 0 } else { 1 } } else { arg_val(&sc.argv, "--distance").and_then(|d| d.parse().ok()).unwrap_or(0) };
            (doc_dirty, dist)
        }
    };
    let tmpl = arg_val(&sc.argv, "--output-template").unwrap_or("");
    let dirty = model_dirty || has_arg(&sc.argv, "--dirty");
    let tag_mode_possible = arg_val(&sc.argv, "--post-mode") != Some("commit");
    let clock_may_show = dirty || tmpl.contains("current_timestamp") || (is_flow && model_dist > 0 && tag_mode_possible);
    stats.event(format!("instant2 now={now2} may_show={clock_may_show} -> {} out={}", o2.status_str(), short(&norm(ctx, &o2.out_str()), 300)));
    if clock_may_show {
        stats.bump("clock_dependent_state");
        if !same(&base, &o2) {
            stats.bump("probe.clock_changed_output_where_documented");
        }
    } else {
        stats.bump("clock_independent_state");
        stats.distinct_key(&format!("{}|{}|clock-independent", sc.source, sc.argv.first().cloned().unwrap_or_default()));
        if !same(&base, &o2) {
            viol.push(mk(
                "clock-independence",
                "clean-state",
                format!("{} stdout={:?}", base.status_str(), short(&base.out_str(), 600)),
                format!("{} stdout={:?}", o2.status_str(), short(&o2.out_str(), 600)),
                format!("clean, not ahead in tag mode, no current_timestamp in the template; SIM_NOW {} -> {}", sc.sim_now, now2),
            ));
        }
    }

    // ---- oracle 3: date-derived components are the UTC calendar fields of the instant concerned
    if let Some(w) = &world_eff {
        let fmt = "auto";
        let e = c02::expect(w, fmt);
        if let (Some(h), false) = (e.head, e.nearest.is_empty()) {
            let instant = if w.is_dirty() { sc.sim_now } else { w.commits[h].ctime };
            let (y, mo, d, hh, mi, ss) = civil(instant);
            let probes: Vec<(Vec<String>, String, &str)> = vec![
                (
                    vec!["version".into(), "--output-template".into(), "{{ format_timestamp(value=bumped_timestamp, format='%Y-%m-%d %H:%M:%S') }}|{{ bumped_timestamp }}".into()],
                    format!("{y:04}-{mo:02}-{d:02} {hh:02}:{mi:02}:{ss:02}|{instant}\n"),
                    "format_timestamp",
                ),
                (
                    vec!["version".into(), "--schema".into(), "calver-base".into(), "--output-template".into(), "{{ semver_obj.base_part }}".into()],
                    format!("{y}.{mo}.{d}"),
                    "calver-preset",
                ),
                (
                    vec![
                        "version".into(),
                        "--schema-ron".into(),
                        "(core:[var(Major),var(Minor),var(Patch)],extra_core:[],build:[var(ts(\"YYYY\")),var(ts(\"0M\")),var(ts(\"0D\")),var(ts(\"0H\")),var(ts(\"0m\")),var(ts(\"0S\")),var(ts(\"compact_date\")),var(ts(\"compact_datetime\")),var(ts(\"MM\")),var(ts(\"DD\")),var(ts(\"HH\")),var(ts(\"mm\")),var(ts(\"SS\"))])".into(),
                        "--output-template".into(),
                        "{{ semver_obj.build_part }}".into(),
                    ],
                    format!("{y}.{mo:02}.{d:02}.{hh:02}.{mi:02}.{ss:02}.{y:04}{mo:02}{d:02}.{y:04}{mo:02}{d:02}{hh:02}{mi:02}{ss:02}.{mo}.{d}.{hh}.{mi}.{ss}\n"),
                    "ts-components",
                ),
            ];
            let tzp: Vec<&Perturb> = std::iter::once(&reference).chain(sc.perturbs.iter().filter(|p| p.tz.is_some())).collect();
            for (argv, want, name) in &probes {
                for p in &tzp {
                    let o = run_zerv(ctx, rd, &ex.call(argv, p, sc.sim_now), stats);
                    stats.bump("executions");
                    stats.bump("utc_calendar_checks");
                    let got = o.out_str();
                    if !o.ok() && p.label == "reference" {
                        // the probe command itself does not apply to this state (not C14's subject)
                        stats.bump("utc_probe_not_applicable");
                        break;
                    }
                    // numeric components are compared as numbers: SemVer rendering drops leading zeros
                    let normz = |s: &str| -> Vec<String> {
                        s.trim_end().split('.').map(|c| { let t = c.trim_start_matches('0'); if t.is_empty() && !c.is_empty() { "0".to_string() } else if c.bytes().all(|b| b.is_ascii_digit()) { t.to_string() } else { c.to_string() } }).collect()
                    };
                    let ok = match *name {
                        "calver-preset" => got.starts_with(want.as_str()) && got[want.len()..].chars().next().map(|c| !c.is_ascii_digit()).unwrap_or(true),
                        "ts-components" => normz(&got) == normz(want),
                        _ => &got == want,
                    };
                    stats.event(format!("utc {name} tz={:?} -> {} out={}", p.tz, o.status_str(), short(&got, 200)));
                    if !o.ok() || !ok {
                        viol.push(mk(
                            "utc-calendar",
                            name,
                            format!("{want:?} (UTC fields of {instant})"),
                            format!("{} {:?}", o.status_str(), short(&got, 300)),
                            format!("TZ={:?} dirty={} argv={argv:?} stderr={}", p.tz, w.is_dirty(), short(&o.err_str(), 200)),
                        ));
                        break;
                    }
                }
            }
        }
    }
    if let Some(w) = &world {
        stats.git_spawns += w.nspawn;
        if w.t_min <= w.t_max {
            stats.time(w.t_min);
            stats.time(w.t_max);
        }
    }
    stats.time(sc.sim_now);
    stats.time(now2);
    if stats.samples.is_empty() {
        stats.samples.push(serde_json::json!({
            "source": sc.source, "argv": sc.argv, "sim_now": sc.sim_now, "delta": sc.delta,
            "perturbations": sc.perturbs.iter().map(|p| format!("{}: tz={:?} lang={:?} lc_all={:?} cwd={} noise_vars={}", p.label, p.tz, p.lang, p.lc_all, p.cwd, p.noise.len())).collect::<Vec<_>>(),
            "reference_stdout": short(&base.out_str(), 400), "reference_status": base.status_str(),
        }));
    }
    Ok(viol)
}

pub fn shrink(scv: &serde_json::Value) -> Vec<serde_json::Value> {
    let Ok(mut sc) = serde_json::from_value::<Scenario>(scv.clone()) else { return vec![] };
    let mut out: Vec<Scenario> = vec![];
    // the driver stores the failing perturbation index in "only"
    if let Some(pi) = scv.get("only").and_then(|v| v.as_str()).and_then(|s| s.parse::<usize>().ok()) {
        if pi < sc.perturbs.len() && sc.perturbs.len() > 1 {
            let mut s = sc.clone();
            s.perturbs = vec![sc.perturbs[pi].clone()];
            out.push(s);
        }
    }
    sc = sc.clone();
    for i in 0..sc.perturbs.len() {
        if sc.perturbs.len() > 1 {
            let mut s = sc.clone();
            s.perturbs.remove(i);
            out.push(s);
        }
        let p = &sc.perturbs[i];
        let mut simpler: Vec<Perturb> = vec![];
        if p.tz.is_some() { let mut q = p.clone(); q.tz = None; simpler.push(q); }
        if p.lang.is_some() { let mut q = p.clone(); q.lang = None; simpler.push(q); }
        if p.lc_all.is_some() { let mut q = p.clone(); q.lc_all = None; simpler.push(q); }
        if p.lc_time.is_some() { let mut q = p.clone(); q.lc_time = None; simpler.push(q); }
        if p.cwd != 0 { let mut q = p.clone(); q.cwd = 0; simpler.push(q); }
        if p.unset_home { let mut q = p.clone(); q.unset_home = false; simpler.push(q); }
        if p.process != 0 { let mut q = p.clone(); q.process = 0; simpler.push(q); }
        if !p.noise.is_empty() {
            let mut q = p.clone(); q.noise.clear(); simpler.push(q);
            if p.noise.len() > 1 {
                for j in 0..p.noise.len() { let mut q = p.clone(); q.noise.remove(j); simpler.push(q); }
            }
        }
        for q in simpler {
            let mut s = sc.clone();
            s.perturbs[i] = q;
            out.push(s);
        }
    }
    let n = sc.ops.len();
    let mut chunk = n;
    while chunk >= 1 {
        let mut i = 0;
        while i < n {
            let mut s = sc.clone();
            s.ops.drain(i..(i + chunk).min(n));
            out.push(s);
            i += chunk;
        }
        chunk /= 2;
    }
    for i in 1..sc.argv.len() {
        let mut s = sc.clone();
        s.argv.remove(i);
        out.push(s);
        if i + 1 < sc.argv.len() {
            let mut s = sc.clone();
            s.argv.drain(i..i + 2);
            out.push(s);
        }
    }
    out.into_iter().map(|s| serde_json::to_value(s).unwrap()).collect()
}

#[cfg(test)]
mod tests {
    use super::civil;
    #[test]
    fn civil_known_instants() {
        assert_eq!(civil(0), (1970, 1, 1, 0, 0, 0));
        assert_eq!(civil(1_700_000_000), (2023, 11, 14, 22, 13, 20));
        assert_eq!(civil(951_782_400), (2000, 2, 29, 0, 0, 0));
        assert_eq!(civil(1_709_251_199), (2024, 2, 29, 23, 59, 59));
        assert_eq!(civil(1_735_689_599), (2024, 12, 31, 23, 59, 59));
        assert_eq!(civil(4_102_444_800), (2100, 1, 1, 0, 0, 0));
        assert_eq!(civil(-1), (1969, 12, 31, 23, 59, 59));
        assert_eq!(civil(2_147_483_647), (2038, 1, 19, 3, 14, 7));
    }
}
