//! Process seam: every child (zerv, and the real git when the simulator builds the world)
//! is started with an environment built from scratch, a stdin the simulator owns, captured
//! stdout / stderr and a watchdog that only ever produces *harness* errors.

use std::collections::HashMap;
use std::ffi::OsString;
use std::io::{Read, Write};
use std::os::unix::process::{CommandExt, ExitStatusExt};
use std::path::PathBuf;
use std::process::{Command, Stdio};
use std::sync::atomic::{AtomicBool, Ordering};
use std::sync::{Mutex, OnceLock};
use std::time::{Duration, Instant};

#[derive(Clone, Debug)]
pub enum Stdin {
    /// /dev/null
    Null,
    /// a pipe fed with `data` in writes of the given chunk sizes (remaining bytes in one last
    /// write), then closed
    Pipe { data: Vec<u8>, chunks: Vec<usize> },
    /// fd 0 closed before exec
    Closed,
    /// fd 0 is a directory (read fails with EISDIR)
    Dir,
}

static TEMPFILE_SEQ: std::sync::atomic::AtomicU64 = std::sync::atomic::AtomicU64::new(0);

#[derive(Clone, Copy, Debug, PartialEq, Eq)]
pub enum Stdout {
    /// captured through a pipe (default)
    Capture,
    /// every write fails with ENOSPC (/dev/full)
    DevFull,
    /// a pipe whose read end is already closed: every write fails with EPIPE
    ClosedPipe,
    /// a regular file (its content is read back as the captured output)
    TempFile,
}

#[derive(Clone, Debug)]
pub struct Spec {
    pub exe: PathBuf,
    pub args: Vec<OsString>,
    pub env: Vec<(OsString, OsString)>,
    pub cwd: PathBuf,
    pub stdin: Stdin,
    /// remove the (empty) working directory after chdir and before exec
    pub rm_cwd: bool,
    /// RLIMIT_AS for the child, bytes (an allocation failure then aborts the child quickly
    /// instead of exhausting the machine)
    pub mem_limit: Option<u64>,
    pub stdout: Stdout,
    /// the same fault modes for stderr (Capture = captured through a pipe)
    pub stderr: Stdout,
    /// file-mode creation mask of the child
    pub umask: Option<u32>,
    /// restrict the child to the first N CPUs (what `available_parallelism()` reports)
    pub cpus: Option<usize>,
}

#[derive(Clone, Debug, PartialEq, Eq)]
pub enum Status {
    Exit(i32),
    Signal(i32),
    SpawnError(String),
}

#[derive(Clone, Debug)]
pub struct Outcome {
    pub status: Status,
    pub stdout: Vec<u8>,
    pub stderr: Vec<u8>,
    pub watchdog: bool,
}

impl Outcome {
    pub fn ok(&self) -> bool {
        self.status == Status::Exit(0)
    }
    pub fn out_str(&self) -> String {
        String::from_utf8_lossy(&self.stdout).to_string()
    }
    pub fn err_str(&self) -> String {
        String::from_utf8_lossy(&self.stderr).to_string()
    }
    pub fn status_str(&self) -> String {
        match &self.status {
            Status::Exit(c) => format!("exit:{c}"),
            Status::Signal(s) => format!("signal:{s}"),
            Status::SpawnError(e) => format!("spawn-error:{e}"),
        }
    }
}

static WATCH: OnceLock<Mutex<HashMap<u32, Instant>>> = OnceLock::new();
static WATCH_STARTED: AtomicBool = AtomicBool::new(false);
pub const WATCHDOG_SECS: u64 = 20;

fn watch() -> &'static Mutex<HashMap<u32, Instant>> {
    WATCH.get_or_init(|| Mutex::new(HashMap::new()))
}

fn ensure_watchdog() {
    if WATCH_STARTED.swap(true, Ordering::SeqCst) {
        return;
    }
    std::thread::spawn(|| loop {
        std::thread::sleep(Duration::from_millis(500));
        let now = Instant::now();
        let m = watch().lock().unwrap();
        for (&pid, &t0) in m.iter() {
            if now.duration_since(t0) > Duration::from_secs(WATCHDOG_SECS) {
                unsafe {
                    libc::kill(pid as i32, libc::SIGKILL);
                }
            }
        }
    });
}

pub fn run(spec: &Spec) -> Outcome {
    ensure_watchdog();
    let mut c = Command::new(&spec.exe);
    c.args(&spec.args);
    c.env_clear();
    for (k, v) in &spec.env {
        c.env(k, v);
    }
    c.current_dir(&spec.cwd);
    let mut stdout_file: Option<PathBuf> = None;
    match spec.stdout {
        Stdout::Capture => {
            c.stdout(Stdio::piped());
        }
        Stdout::TempFile => {
            let p = std::env::temp_dir().join(format!("zsim-stdout-{}-{}", std::process::id(), TEMPFILE_SEQ.fetch_add(1, Ordering::SeqCst)));
            match std::fs::File::create(&p) {
                Ok(f) => {
                    c.stdout(Stdio::from(f));
                    stdout_file = Some(p);
                }
                Err(_) => {
                    c.stdout(Stdio::piped());
                }
            }
        }
        Stdout::DevFull => match std::fs::OpenOptions::new().write(true).open("/dev/full") {
            Ok(f) => {
                c.stdout(Stdio::from(f));
            }
            Err(_) => {
                c.stdout(Stdio::null());
            }
        },
        Stdout::ClosedPipe => unsafe {
            use std::os::unix::io::FromRawFd;
            let mut fds = [0i32; 2];
            if libc::pipe2(fds.as_mut_ptr(), libc::O_CLOEXEC) == 0 {
                libc::close(fds[0]);
                c.stdout(Stdio::from_raw_fd(fds[1]));
            } else {
                c.stdout(Stdio::null());
            }
        },
    }
    match spec.stderr {
        Stdout::Capture | Stdout::TempFile => {
            c.stderr(Stdio::piped());
        }
        Stdout::DevFull => match std::fs::OpenOptions::new().write(true).open("/dev/full") {
            Ok(f) => {
                c.stderr(Stdio::from(f));
            }
            Err(_) => {
                c.stderr(Stdio::null());
            }
        },
        Stdout::ClosedPipe => unsafe {
            use std::os::unix::io::FromRawFd;
            let mut fds = [0i32; 2];
            if libc::pipe2(fds.as_mut_ptr(), libc::O_CLOEXEC) == 0 {
                libc::close(fds[0]);
                c.stderr(Stdio::from_raw_fd(fds[1]));
            } else {
                c.stderr(Stdio::null());
            }
        },
    }
    match &spec.stdin {
        Stdin::Null => {
            c.stdin(Stdio::null());
        }
        Stdin::Pipe { .. } => {
            c.stdin(Stdio::piped());
        }
        Stdin::Closed => {
            c.stdin(Stdio::null());
            unsafe {
                c.pre_exec(|| {
                    libc::close(0);
                    Ok(())
                });
            }
        }
        Stdin::Dir => match std::fs::File::open("/") {
            Ok(f) => {
                c.stdin(Stdio::from(f));
            }
            Err(_) => {
                c.stdin(Stdio::null());
            }
        },
    }
    if spec.rm_cwd || spec.mem_limit.is_some() || spec.umask.is_some() || spec.cpus.is_some() {
        let cwd_c = std::ffi::CString::new(spec.cwd.as_os_str().as_encoded_bytes().to_vec()).ok();
        let rm = spec.rm_cwd;
        let lim = spec.mem_limit;
        let um = spec.umask;
        let cpus = spec.cpus;
        unsafe {
            c.pre_exec(move || {
                if let Some(n) = cpus {
                    let mut set: libc::cpu_set_t = std::mem::zeroed();
                    for i in 0..n.max(1) {
                        libc::CPU_SET(i, &mut set);
                    }
                    libc::sched_setaffinity(0, std::mem::size_of::<libc::cpu_set_t>(), &set);
                }
                if let Some(m) = um {
                    libc::umask(m as libc::mode_t);
                }
                if let Some(l) = lim {
                    let rl = libc::rlimit { rlim_cur: l as libc::rlim_t, rlim_max: l as libc::rlim_t };
                    libc::setrlimit(libc::RLIMIT_AS, &rl);
                }
                if rm {
                    if let Some(p) = &cwd_c {
                        libc::rmdir(p.as_ptr());
                    }
                }
                Ok(())
            });
        }
    }
    let t0 = Instant::now();
    let mut child = match c.spawn() {
        Ok(ch) => ch,
        Err(e) => {
            return Outcome {
                status: Status::SpawnError(e.to_string()),
                stdout: vec![],
                stderr: vec![],
                watchdog: false,
            }
        }
    };
    let pid = child.id();
    watch().lock().unwrap().insert(pid, t0);

    let so = child.stdout.take();
    let se = child.stderr.take();
    let t_out = std::thread::spawn(move || {
        let mut b = Vec::new();
        if let Some(mut so) = so {
            let _ = so.read_to_end(&mut b);
        }
        b
    });
    let t_err = std::thread::spawn(move || {
        let mut b = Vec::new();
        if let Some(mut se) = se {
            let _ = se.read_to_end(&mut b);
        }
        b
    });
    if let Stdin::Pipe { data, chunks } = &spec.stdin {
        if let Some(mut si) = child.stdin.take() {
            let mut off = 0usize;
            for &n in chunks {
                if off >= data.len() {
                    break;
                }
                let end = (off + n.max(1)).min(data.len());
                if si.write_all(&data[off..end]).is_err() {
                    off = data.len();
                    break;
                }
                let _ = si.flush();
                off = end;
            }
            if off < data.len() {
                let _ = si.write_all(&data[off..]);
            }
            drop(si); // EOF
        }
    }
    let st = child.wait();
    watch().lock().unwrap().remove(&pid);
    let mut stdout = t_out.join().unwrap_or_default();
    if let Some(p) = stdout_file {
        stdout = std::fs::read(&p).unwrap_or_default();
        let _ = std::fs::remove_file(&p);
    }
    let stderr = t_err.join().unwrap_or_default();
    let elapsed = t0.elapsed();
    let status = match st {
        Ok(s) => {
            if let Some(c) = s.code() {
                Status::Exit(c)
            } else {
                Status::Signal(s.signal().unwrap_or(0))
            }
        }
        Err(e) => Status::SpawnError(e.to_string()),
    };
    let watchdog = elapsed > Duration::from_secs(WATCHDOG_SECS) && status == Status::Signal(libc::SIGKILL);
    Outcome { status, stdout, stderr, watchdog }
}

/// Ignore SIGPIPE-on-write (a child may exit before reading all of its stdin).
pub fn ignore_sigpipe() {
    unsafe {
        libc::signal(libc::SIGPIPE, libc::SIG_IGN);
    }
}
