//! Reading zerv's `--output-format zerv` answer with the `ron` crate into structures declared
//! here from the documented shape (not zerv's own types).

use serde::Deserialize;

#[derive(Deserialize, Debug, Clone, PartialEq)]
pub enum Label {
    Alpha,
    Beta,
    Rc,
}

#[derive(Deserialize, Debug, Clone, PartialEq)]
pub struct PreRelease {
    pub label: Label,
    pub number: Option<u64>,
}

#[allow(non_camel_case_types)]
#[derive(Deserialize, Debug, Clone, PartialEq)]
pub enum Var {
    Major,
    Minor,
    Patch,
    Epoch,
    PreRelease,
    Post,
    Dev,
    Distance,
    Dirty,
    BumpedBranch,
    BumpedCommitHash,
    BumpedCommitHashShort,
    BumpedTimestamp,
    LastBranch,
    LastCommitHash,
    LastCommitHashShort,
    LastTimestamp,
    custom(String),
    ts(String),
}

#[allow(non_camel_case_types)]
#[derive(Deserialize, Debug, Clone, PartialEq)]
pub enum Comp {
    str(String),
    uint(u64),
    var(Var),
}

#[derive(Deserialize, Debug, Clone, PartialEq)]
pub enum Prec {
    Epoch,
    Major,
    Minor,
    Patch,
    Core,
    PreReleaseLabel,
    PreReleaseNum,
    Post,
    Dev,
    ExtraCore,
    Build,
}

#[derive(Deserialize, Debug, Clone, PartialEq)]
pub struct Schema {
    pub core: Vec<Comp>,
    pub extra_core: Vec<Comp>,
    pub build: Vec<Comp>,
    #[serde(default)]
    pub precedence_order: Vec<Prec>,
}

#[derive(Deserialize, Debug, Clone, PartialEq)]
pub struct Vars {
    pub major: Option<u64>,
    pub minor: Option<u64>,
    pub patch: Option<u64>,
    pub epoch: Option<u64>,
    pub pre_release: Option<PreRelease>,
    pub post: Option<u64>,
    pub dev: Option<u64>,
    pub distance: Option<u64>,
    pub dirty: Option<bool>,
    pub bumped_branch: Option<String>,
    pub bumped_commit_hash: Option<String>,
    pub bumped_timestamp: Option<u64>,
    pub last_branch: Option<String>,
    pub last_commit_hash: Option<String>,
    pub last_timestamp: Option<u64>,
    pub last_tag_version: Option<String>,
    #[serde(default = "unit_value")]
    pub custom: ron::Value,
}

fn unit_value() -> ron::Value {
    ron::Value::Unit
}

#[derive(Deserialize, Debug, Clone, PartialEq)]
pub struct Doc {
    pub schema: Schema,
    pub vars: Vars,
}

pub fn parse(text: &str) -> Result<Doc, String> {
    ron::from_str::<Doc>(text).map_err(|e| e.to_string())
}

impl Schema {
    pub fn all(&self) -> impl Iterator<Item = (&'static str, &Comp)> {
        self.core
            .iter()
            .map(|c| ("core", c))
            .chain(self.extra_core.iter().map(|c| ("extra_core", c)))
            .chain(self.build.iter().map(|c| ("build", c)))
    }

    /// Independent statement of the schema placement rules of C12, written from the property
    /// text: major/minor/patch only in core and in order; epoch / pre-release / post / dev only
    /// in extra-core; none of those twice; timestamp patterns from the documented list; at
    /// least one component in total.
    pub fn placement_errors(&self) -> Vec<String> {
        let mut errs = vec![];
        if self.core.is_empty() && self.extra_core.is_empty() && self.build.is_empty() {
            errs.push("no component at all".into());
        }
        let mut seen: Vec<&Var> = vec![];
        let mut last_primary = -1i32;
        for (sec, c) in self.all() {
            if let Comp::var(v) = c {
                let prim = match v {
                    Var::Major => Some(0),
                    Var::Minor => Some(1),
                    Var::Patch => Some(2),
                    _ => None,
                };
                let second = matches!(v, Var::Epoch | Var::PreRelease | Var::Post | Var::Dev);
                if let Some(p) = prim {
                    if sec != "core" {
                        errs.push(format!("{v:?} outside core ({sec})"));
                    } else {
                        if p <= last_primary {
                            errs.push(format!("{v:?} out of order in core"));
                        }
                        last_primary = last_primary.max(p);
                    }
                }
                if second && sec != "extra_core" {
                    errs.push(format!("{v:?} outside extra_core ({sec})"));
                }
                if prim.is_some() || second {
                    if seen.contains(&v) {
                        errs.push(format!("{v:?} duplicated"));
                    }
                    seen.push(v);
                }
                if let Var::ts(p) = v {
                    if !KNOWN_TS.contains(&p.as_str()) && !p.starts_with('%') {
                        errs.push(format!("unknown timestamp pattern {p:?}"));
                    }
                }
            }
        }
        errs
    }
}

/// Timestamp patterns documented by zerv (README "Timestamp patterns" / `zerv version --help`).
pub const KNOWN_TS: &[&str] = &[
    "YYYY", "YY", "MM", "0M", "DD", "0D", "HH", "0H", "mm", "0m", "SS", "0S", "WW", "0W",
    "compact_date", "compact_datetime",
];
