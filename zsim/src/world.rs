//! The simulated world: a reference model of a git repository (the oracle), the operations
//! seeded "developer" actors perform on it, and the materialiser that applies every operation
//! to a real repository with the real git under a fully pinned environment (DESIGN.md §3.2).
//!
//! The model knows nothing about git commands.  It is kept honest by `validate()`, which
//! re-reads the repository through plumbing zerv does not use (`for-each-ref`,
//! `cat-file --batch`, `symbolic-ref`, `diff --quiet`, `ls-files`) and compares.

use crate::ver;
use serde::{Deserialize, Serialize};
use std::collections::{BTreeMap, BTreeSet};
use std::io::Write;
use std::path::{Path, PathBuf};
use std::process::{Command, Stdio};

pub const REAL_GIT: &str = "/usr/bin/git";

#[derive(Serialize, Deserialize, Clone, Copy, Debug, PartialEq, Eq, PartialOrd, Ord, Hash)]
pub enum TagKind {
    Light,
    Annot,
    Nested,
}

#[derive(Serialize, Deserialize, Clone, Copy, Debug, PartialEq, Eq, PartialOrd, Ord, Hash)]
pub enum DirtyKind {
    Untracked,
    UntrackedInSubdir,
    Modified,
    StagedNew,
    StagedMod,
    Deleted,
    ModeChange,
    /// `git mv` of a tracked file (porcelain code R)
    Renamed,
    /// a tracked regular file replaced by a symlink (porcelain code T)
    TypeChange,
    /// an untracked file whose name has a space, a quote and non-ASCII letters (porcelain quotes it)
    WeirdName,
    /// several hundred untracked files (a long porcelain listing)
    ManyUntracked,
    /// staged deletion (`git rm`)
    StagedDelete,
    /// untracked files named exactly like the live tags and branches (a revision argument that is
    /// also a path is ambiguous for git unless the caller separates them with `--`)
    FilesNamedLikeRefs,
    /// a submodule (gitlink committed in HEAD's tree, nested repository checked out at exactly
    /// that commit) whose only change is a modified tracked file inside its own work tree:
    /// `git status --porcelain` answers ` M submod`; nothing else in the superproject is touched
    SubmoduleContent,
    // the following must leave the tree clean
    IgnoredOnly,
    UntrackedInIgnoredDir,
    EmptyDir,
    TouchOnly,
}

impl DirtyKind {
    pub fn is_dirty(self) -> bool {
        !matches!(
            self,
            DirtyKind::IgnoredOnly | DirtyKind::UntrackedInIgnoredDir | DirtyKind::EmptyDir | DirtyKind::TouchOnly
        )
    }
    pub const ALL: [DirtyKind; 18] = [
        DirtyKind::Untracked,
        DirtyKind::UntrackedInSubdir,
        DirtyKind::Modified,
        DirtyKind::StagedNew,
        DirtyKind::StagedMod,
        DirtyKind::Deleted,
        DirtyKind::ModeChange,
        DirtyKind::Renamed,
        DirtyKind::TypeChange,
        DirtyKind::WeirdName,
        DirtyKind::ManyUntracked,
        DirtyKind::StagedDelete,
        DirtyKind::FilesNamedLikeRefs,
        DirtyKind::SubmoduleContent,
        DirtyKind::IgnoredOnly,
        DirtyKind::UntrackedInIgnoredDir,
        DirtyKind::EmptyDir,
        DirtyKind::TouchOnly,
    ];
}

/// Every referent is symbolic (an index taken modulo the number of things that exist when the
/// operation runs) so that dropping operations during minimisation leaves the rest meaningful.
#[derive(Serialize, Deserialize, Clone, Debug, PartialEq)]
pub enum Op {
    Commit { actor: usize, dt: i64, adt: i64, with_file: bool },
    Branch { name: String, from: Option<usize> },
    Checkout { branch: usize },
    /// check out the most recently created live branch
    CheckoutNewest,
    Detach { commit: usize },
    Merge { others: Vec<usize>, actor: usize, dt: i64 },
    FastForward { branch: usize },
    Tag { name: String, kind: TagKind, target: Option<usize>, actor: usize, dt: i64 },
    DeleteTag { tag: usize },
    DeleteBranch { branch: usize },
    ResetHard { commit: usize },
    Amend { actor: usize, dt: i64, adt: i64 },
    /// a new root commit on a new branch (unrelated history)
    Orphan { name: String, actor: usize, dt: i64 },
    /// a tag whose object is the tree of a commit (never on any commit, whatever its name)
    TagTree { name: String, commit: usize },
    Dirty { kind: DirtyKind },
    Clean,
    PackRefs,
    Gc,
    /// observation point (handled by the engine, not by the world)
    Observe,
}

#[derive(Serialize, Deserialize, Clone, Debug, PartialEq)]
pub struct Actor {
    pub clock: i64,
    pub tz: String, // "+0530"
}

#[derive(Clone, Debug)]
pub struct CommitM {
    pub parents: Vec<usize>,
    pub atime: i64,
    pub ctime: i64,
    pub hash: String,
}

#[derive(Clone, Debug)]
pub struct BranchM {
    pub name: String,
    pub tip: usize,
    pub alive: bool,
}

#[derive(Clone, Debug)]
pub struct TagM {
    pub name: String,
    pub target: usize,
    pub kind: TagKind,
    pub alive: bool,
}

#[derive(Clone, Debug, PartialEq)]
pub enum Head {
    /// symbolic: branch name (possibly unborn)
    Branch(String),
    Detached(usize),
}

#[derive(Clone)]
pub struct World {
    pub dir: PathBuf,
    pub home: PathBuf,
    pub actors: Vec<Actor>,
    pub commits: Vec<CommitM>,
    pub branches: Vec<BranchM>,
    pub tags: Vec<TagM>,
    /// tags pointing at tree objects: they exist as refs but are on no commit
    pub tree_tags: Vec<(String, String)>,
    pub head: Head,
    pub dirt: BTreeSet<DirtyKind>,
    pub nfiles: usize,
    pub nspawn: u64,
    pub log: Vec<String>,
    /// span of simulated time touched by actors
    pub t_min: i64,
    pub t_max: i64,
}

pub use crate::sim::HarnessError;

type HResult<T> = Result<T, HarnessError>;

fn herr<T>(s: impl Into<String>) -> HResult<T> {
    Err(HarnessError(s.into()))
}

impl World {
    /// `git init -b main` in a fresh directory under the pinned environment.
    pub fn create(dir: &Path, home: &Path, actors: Vec<Actor>) -> HResult<World> {
        std::fs::create_dir_all(dir).map_err(|e| HarnessError(format!("mkdir {dir:?}: {e}")))?;
        std::fs::create_dir_all(home).map_err(|e| HarnessError(format!("mkdir {home:?}: {e}")))?;
        let mut w = World {
            dir: dir.to_path_buf(),
            home: home.to_path_buf(),
            actors,
            commits: vec![],
            branches: vec![],
            tags: vec![],
            tree_tags: vec![],
            head: Head::Branch("main".into()),
            dirt: BTreeSet::new(),
            nfiles: 0,
            nspawn: 0,
            log: vec![],
            t_min: i64::MAX,
            t_max: i64::MIN,
        };
        w.git_ok(&["init", "-q", "-b", "main", "."], None, None)?;
        Ok(w)
    }

    fn cmd(&self, args: &[&str], date: Option<(i64, i64, &str)>) -> Command {
        let mut c = Command::new(REAL_GIT);
        c.args(args);
        c.current_dir(&self.dir);
        c.env_clear();
        c.env("PATH", "/usr/bin:/bin");
        c.env("HOME", &self.home);
        c.env("GIT_CONFIG_NOSYSTEM", "1");
        c.env("GIT_CONFIG_GLOBAL", "/dev/null");
        c.env("GIT_AUTHOR_NAME", "Sim Actor");
        c.env("GIT_AUTHOR_EMAIL", "actor@zsim.invalid");
        c.env("GIT_COMMITTER_NAME", "Sim Actor");
        c.env("GIT_COMMITTER_EMAIL", "actor@zsim.invalid");
        c.env("GIT_CONFIG_COUNT", "2");
        c.env("GIT_CONFIG_KEY_0", "gc.auto");
        c.env("GIT_CONFIG_VALUE_0", "0");
        c.env("GIT_CONFIG_KEY_1", "advice.detachedHead");
        c.env("GIT_CONFIG_VALUE_1", "false");
        c.env("TZ", "UTC");
        c.env("LC_ALL", "C");
        if let Some((at, ct, tz)) = date {
            c.env("GIT_AUTHOR_DATE", format!("@{at} {tz}"));
            c.env("GIT_COMMITTER_DATE", format!("@{ct} {tz}"));
        }
        c
    }

    /// run git; Ok(stdout) if exit 0, Err(stderr) otherwise
    pub fn git(&mut self, args: &[&str], date: Option<(i64, i64, &str)>, stdin: Option<&[u8]>) -> Result<String, String> {
        self.nspawn += 1;
        let mut c = self.cmd(args, date);
        c.stdout(Stdio::piped()).stderr(Stdio::piped());
        c.stdin(if stdin.is_some() { Stdio::piped() } else { Stdio::null() });
        let mut ch = c.spawn().map_err(|e| format!("spawn git: {e}"))?;
        if let Some(data) = stdin {
            if let Some(mut si) = ch.stdin.take() {
                let _ = si.write_all(data);
            }
        }
        let o = ch.wait_with_output().map_err(|e| format!("wait git: {e}"))?;
        if o.status.success() {
            Ok(String::from_utf8_lossy(&o.stdout).trim_end().to_string())
        } else {
            Err(String::from_utf8_lossy(&o.stderr).to_string())
        }
    }

    fn git_ok(&mut self, args: &[&str], date: Option<(i64, i64, &str)>, stdin: Option<&[u8]>) -> HResult<String> {
        self.git(args, date, stdin)
            .map_err(|e| HarnessError(format!("git {args:?} failed unexpectedly: {e}")))
    }

    // ------------------------------------------------------------------ model queries

    pub fn head_commit(&self) -> Option<usize> {
        match &self.head {
            Head::Detached(c) => Some(*c),
            Head::Branch(n) => self.branches.iter().find(|b| b.alive && &b.name == n).map(|b| b.tip),
        }
    }

    pub fn head_branch(&self) -> Option<String> {
        match &self.head {
            Head::Branch(n) => Some(n.clone()),
            Head::Detached(_) => None,
        }
    }

    /// ancestors-or-self, by BFS over parent edges
    pub fn ancestors(&self, c: usize) -> BTreeSet<usize> {
        let mut seen = BTreeSet::new();
        let mut stack = vec![c];
        while let Some(x) = stack.pop() {
            if seen.insert(x) {
                for &p in &self.commits[x].parents {
                    stack.push(p);
                }
            }
        }
        seen
    }

    pub fn is_dirty(&self) -> bool {
        self.dirt.iter().any(|k| k.is_dirty())
    }

    pub fn live_tags(&self) -> impl Iterator<Item = &TagM> {
        self.tags.iter().filter(|t| t.alive)
    }

    pub fn tags_on(&self, c: usize) -> Vec<&TagM> {
        self.live_tags().filter(|t| t.target == c).collect()
    }

    pub fn live_branches(&self) -> Vec<usize> {
        (0..self.branches.len()).filter(|&i| self.branches[i].alive).collect()
    }

    // ------------------------------------------------------------------ operations

    fn tick(&mut self, actor: usize, dt: i64) -> (i64, String) {
        let n = self.actors.len();
        let a = &mut self.actors[actor % n];
        a.clock = (a.clock + dt).clamp(1, 4_102_444_800); // git refuses dates before 1970 / beyond 2100
        let t = a.clock;
        self.t_min = self.t_min.min(t);
        self.t_max = self.t_max.max(t);
        (t, a.tz.clone())
    }

    fn auto_clean(&mut self) -> HResult<()> {
        if !self.dirt.is_empty() {
            self.do_clean()?;
        }
        Ok(())
    }

    fn do_clean(&mut self) -> HResult<()> {
        // a populated submodule is not touched by `reset --hard` / `clean`: remove the nested
        // repository; `reset --hard` then leaves the empty directory of an unpopulated gitlink,
        // which is clean and which a checkout of a commit without the gitlink removes again
        let sub = self.dir.join("submod");
        if sub.join(".git").exists() {
            std::fs::remove_dir_all(&sub).map_err(|e| HarnessError(format!("remove nested repository: {e}")))?;
        }
        if self.head_commit().is_some() {
            self.git_ok(&["reset", "-q", "--hard"], None, None)?;
        }
        self.git_ok(&["clean", "-q", "-fdx"], None, None)?;
        self.dirt.clear();
        Ok(())
    }

    fn set_head_tip(&mut self, c: usize) {
        match self.head.clone() {
            Head::Detached(_) => self.head = Head::Detached(c),
            Head::Branch(n) => {
                if let Some(b) = self.branches.iter_mut().find(|b| b.alive && b.name == n) {
                    b.tip = c;
                } else {
                    self.branches.push(BranchM { name: n, tip: c, alive: true });
                }
            }
        }
    }

    fn new_commit(&mut self, parents: Vec<usize>, at: i64, ct: i64, tz: &str, tree: &str, msg: &str) -> HResult<usize> {
        let mut args: Vec<String> = vec!["commit-tree".into(), tree.into(), "-m".into(), msg.into()];
        for &p in &parents {
            args.push("-p".into());
            args.push(self.commits[p].hash.clone());
        }
        let a: Vec<&str> = args.iter().map(|s| s.as_str()).collect();
        let hash = self.git_ok(&a, Some((at, ct, tz)), None)?;
        self.git_ok(&["update-ref", "HEAD", &hash], None, None)?;
        self.commits.push(CommitM { parents, atime: at, ctime: ct, hash });
        let id = self.commits.len() - 1;
        self.set_head_tip(id);
        Ok(id)
    }

    /// Apply one operation to the repository and – only if git accepted it – to the model.
    /// Returns a short description (for logs); "skip: …" when the operation has no meaning in
    /// the current world.
    pub fn apply(&mut self, op: &Op) -> HResult<String> {
        let r = self.apply_inner(op)?;
        self.log.push(format!("{op:?} => {r}"));
        Ok(r)
    }

    fn apply_inner(&mut self, op: &Op) -> HResult<String> {
        match op {
            Op::Observe => Ok("observe".into()),
            Op::Commit { actor, dt, adt, with_file } => {
                self.auto_clean()?;
                let (ct, tz) = self.tick(*actor, *dt);
                let at = (ct - adt).max(1);
                let head = self.head_commit();
                let tree = if head.is_none() {
                    // root commit: base files + ignore rules
                    let d = self.dir.clone();
                    let wr = |p: &str, s: &str| std::fs::write(d.join(p), s);
                    wr("base.txt", "base\n")
                        .and(wr("stage.txt", "stage\n"))
                        .and(wr(".gitignore", "*.ign\nignored-dir/\n"))
                        .map_err(|e| HarnessError(format!("write base files: {e}")))?;
                    self.git_ok(&["add", "base.txt", "stage.txt", ".gitignore"], None, None)?;
                    self.git_ok(&["write-tree"], None, None)?
                } else if *with_file {
                    self.nfiles += 1;
                    let name = format!("f{}.txt", self.nfiles);
                    std::fs::write(self.dir.join(&name), format!("{}\n", self.nfiles))
                        .map_err(|e| HarnessError(format!("write {name}: {e}")))?;
                    self.git_ok(&["update-index", "--add", &name], None, None)?;
                    self.git_ok(&["write-tree"], None, None)?
                } else {
                    format!("{}^{{tree}}", self.commits[head.unwrap()].hash)
                };
                let parents = head.into_iter().collect();
                let msg = format!("c{}", self.commits.len());
                let id = self.new_commit(parents, at, ct, &tz, &tree, &msg)?;
                Ok(format!("commit #{id} {}", &self.commits[id].hash[..8]))
            }
            Op::Amend { actor, dt, adt } => {
                let Some(h) = self.head_commit() else { return Ok("skip: unborn".into()) };
                self.auto_clean()?;
                let (ct, tz) = self.tick(*actor, *dt);
                let at = (ct - adt).max(1);
                let parents = self.commits[h].parents.clone();
                let tree = format!("{}^{{tree}}", self.commits[h].hash);
                let msg = format!("amended c{}", self.commits.len());
                let id = self.new_commit(parents, at, ct, &tz, &tree, &msg)?;
                Ok(format!("amend -> #{id}"))
            }
            Op::Merge { others, actor, dt } => {
                let Some(h) = self.head_commit() else { return Ok("skip: unborn".into()) };
                let live = self.live_branches();
                if live.is_empty() {
                    return Ok("skip: no branches".into());
                }
                let anc = self.ancestors(h);
                let mut parents = vec![h];
                for &o in others {
                    let tip = self.branches[live[o % live.len()]].tip;
                    // merging something already contained in HEAD is "Already up to date"
                    if !anc.contains(&tip) && !parents.contains(&tip) {
                        parents.push(tip);
                    }
                }
                if parents.len() < 2 {
                    return Ok("skip: nothing to merge".into());
                }
                self.auto_clean()?;
                let (ct, tz) = self.tick(*actor, *dt);
                let tree = format!("{}^{{tree}}", self.commits[h].hash);
                let msg = format!("merge c{}", self.commits.len());
                let n = parents.len();
                let id = self.new_commit(parents, ct, ct, &tz, &tree, &msg)?;
                Ok(format!("merge #{id} ({n} parents)"))
            }
            Op::FastForward { branch } => {
                let Some(h) = self.head_commit() else { return Ok("skip: unborn".into()) };
                let live = self.live_branches();
                if live.is_empty() {
                    return Ok("skip: no branches".into());
                }
                let tip = self.branches[live[*branch % live.len()]].tip;
                if tip == h || !self.ancestors(tip).contains(&h) {
                    return Ok("skip: not fast-forwardable".into());
                }
                self.auto_clean()?;
                let hash = self.commits[tip].hash.clone();
                self.git_ok(&["merge", "-q", "--ff-only", &hash], None, None)?;
                self.set_head_tip(tip);
                Ok(format!("ff -> #{tip}"))
            }
            Op::Branch { name, from } => {
                let at = match from {
                    None => self.head_commit(),
                    Some(i) if !self.commits.is_empty() => Some(*i % self.commits.len()),
                    _ => None,
                };
                let Some(at) = at else { return Ok("skip: unborn".into()) };
                if self.branches.iter().any(|b| b.alive && &b.name == name) {
                    return Ok("skip: branch exists".into());
                }
                let hash = self.commits[at].hash.clone();
                match self.git(&["branch", "--", name, &hash], None, None) {
                    Ok(_) => {
                        self.branches.push(BranchM { name: name.clone(), tip: at, alive: true });
                        Ok(format!("branch {name} at #{at}"))
                    }
                    Err(e) => Ok(format!("skip: git refused branch {name:?}: {}", e.lines().next().unwrap_or(""))),
                }
            }
            Op::DeleteBranch { branch } => {
                let live = self.live_branches();
                if live.is_empty() {
                    return Ok("skip: no branches".into());
                }
                let bi = live[*branch % live.len()];
                let name = self.branches[bi].name.clone();
                if self.head == Head::Branch(name.clone()) {
                    return Ok("skip: current branch".into());
                }
                match self.git(&["branch", "-q", "-D", "--", &name], None, None) {
                    Ok(_) => {
                        self.branches[bi].alive = false;
                        Ok(format!("deleted branch {name}"))
                    }
                    Err(e) => herr(format!("branch -D {name}: {e}")),
                }
            }
            Op::Checkout { .. } | Op::CheckoutNewest => {
                let live = self.live_branches();
                if live.is_empty() {
                    return Ok("skip: no branches".into());
                }
                let bi = match op {
                    Op::Checkout { branch } => live[*branch % live.len()],
                    _ => *live.last().unwrap(),
                };
                let name = self.branches[bi].name.clone();
                self.auto_clean()?;
                match self.git(&["checkout", "-q", &name, "--"], None, None) {
                    Ok(_) => {
                        self.head = Head::Branch(name.clone());
                        Ok(format!("checkout {name}"))
                    }
                    Err(e) => Ok(format!("skip: git refused checkout {name:?}: {}", e.lines().next().unwrap_or(""))),
                }
            }
            Op::Detach { commit } => {
                if self.commits.is_empty() || self.head_commit().is_none() {
                    return Ok("skip: unborn".into());
                }
                let c = *commit % self.commits.len();
                self.auto_clean()?;
                let hash = self.commits[c].hash.clone();
                match self.git(&["checkout", "-q", "--detach", &hash], None, None) {
                    Ok(_) => {
                        self.head = Head::Detached(c);
                        Ok(format!("detach at #{c}"))
                    }
                    Err(e) => Ok(format!("skip: git refused detach: {}", e.lines().next().unwrap_or(""))),
                }
            }
            Op::ResetHard { commit } => {
                if self.commits.is_empty() || self.head_commit().is_none() {
                    return Ok("skip: unborn".into());
                }
                let c = *commit % self.commits.len();
                self.auto_clean()?;
                let hash = self.commits[c].hash.clone();
                match self.git(&["reset", "-q", "--hard", &hash], None, None) {
                    Ok(_) => {
                        self.set_head_tip(c);
                        Ok(format!("reset --hard #{c}"))
                    }
                    Err(e) => Ok(format!("skip: git refused reset: {}", e.lines().next().unwrap_or(""))),
                }
            }
            Op::Tag { name, kind, target, actor, dt } => {
                let at = match target {
                    None => self.head_commit(),
                    Some(i) if !self.commits.is_empty() => Some(*i % self.commits.len()),
                    _ => None,
                };
                let Some(at) = at else { return Ok("skip: unborn".into()) };
                if self.tags.iter().any(|t| t.alive && &t.name == name) || self.tree_tags.iter().any(|(n, _)| n == name) {
                    return Ok("skip: tag exists".into());
                }
                let (ct, tz) = self.tick(*actor, *dt);
                let hash = self.commits[at].hash.clone();
                let res = match kind {
                    TagKind::Light => self.git(&["tag", "--", name, &hash], None, None),
                    TagKind::Annot => self.git(&["tag", "-a", "-m", "annotated", "--", name, &hash], Some((ct, ct, &tz)), None),
                    TagKind::Nested => {
                        // tag object pointing at a tag object pointing at the commit
                        let inner = format!(
                            "object {hash}\ntype commit\ntag zsim-inner\ntagger Sim Actor <actor@zsim.invalid> {ct} {tz}\n\ninner\n"
                        );
                        match self.git(&["mktag"], None, Some(inner.as_bytes())) {
                            Ok(inner_sha) => self.git(
                                &["tag", "-a", "-m", "outer", "--", name, inner_sha.trim()],
                                Some((ct, ct, &tz)),
                                None,
                            ),
                            Err(e) => Err(e),
                        }
                    }
                };
                match res {
                    Ok(_) => {
                        self.tags.push(TagM { name: name.clone(), target: at, kind: *kind, alive: true });
                        Ok(format!("tag {name} ({kind:?}) at #{at}"))
                    }
                    Err(e) => Ok(format!("skip: git refused tag {name:?}: {}", e.lines().next().unwrap_or(""))),
                }
            }
            Op::DeleteTag { tag } => {
                let live: Vec<usize> = (0..self.tags.len()).filter(|&i| self.tags[i].alive).collect();
                if live.is_empty() {
                    return Ok("skip: no tags".into());
                }
                let ti = live[*tag % live.len()];
                let name = self.tags[ti].name.clone();
                self.git_ok(&["tag", "-d", "--", &name], None, None)?;
                self.tags[ti].alive = false;
                Ok(format!("deleted tag {name}"))
            }
            Op::Orphan { name, actor, dt } => {
                if self.head_commit().is_none() {
                    return Ok("skip: unborn".into());
                }
                if self.branches.iter().any(|b| b.alive && &b.name == name) {
                    return Ok("skip: branch exists".into());
                }
                // `checkout --orphan` only rewrites HEAD; a directory/file conflict with an existing
                // ref would surface later, at the first update-ref
                let conflict = |a: &str, b: &str| a.starts_with(&format!("{b}/")) || b.starts_with(&format!("{a}/"));
                if self.branches.iter().any(|b| b.alive && conflict(&b.name, name)) {
                    return Ok("skip: ref directory/file conflict".into());
                }
                self.auto_clean()?;
                match self.git(&["checkout", "-q", "--orphan", name, "--"], None, None) {
                    Ok(_) => {}
                    Err(e) => return Ok(format!("skip: git refused orphan {name:?}: {}", e.lines().next().unwrap_or(""))),
                }
                self.head = Head::Branch(name.clone());
                let (ct, tz) = self.tick(*actor, *dt);
                let tree = self.git_ok(&["write-tree"], None, None)?;
                let msg = format!("root c{}", self.commits.len());
                let id = self.new_commit(vec![], ct, ct, &tz, &tree, &msg)?;
                Ok(format!("orphan {name} root #{id}"))
            }
            Op::TagTree { name, commit } => {
                if self.commits.is_empty() {
                    return Ok("skip: unborn".into());
                }
                if self.tags.iter().any(|t| t.alive && &t.name == name) || self.tree_tags.iter().any(|(n, _)| n == name) {
                    return Ok("skip: tag exists".into());
                }
                let c = *commit % self.commits.len();
                let spec = format!("{}^{{tree}}", self.commits[c].hash);
                let tree = self.git_ok(&["rev-parse", &spec], None, None)?;
                match self.git(&["tag", "--", name, &tree], None, None) {
                    Ok(_) => {
                        self.tree_tags.push((name.clone(), tree));
                        Ok(format!("tree tag {name}"))
                    }
                    Err(e) => Ok(format!("skip: git refused tree tag {name:?}: {}", e.lines().next().unwrap_or(""))),
                }
            }
            Op::Dirty { kind } => {
                if self.head_commit().is_none() {
                    return Ok("skip: unborn".into());
                }
                if self.dirt.contains(kind) {
                    return Ok("skip: already".into());
                }
                // combinations that would interfere with each other are not stacked
                let touches_base = |k: &DirtyKind| {
                    matches!(
                        k,
                        DirtyKind::Modified | DirtyKind::Deleted | DirtyKind::ModeChange | DirtyKind::TouchOnly | DirtyKind::Renamed | DirtyKind::TypeChange | DirtyKind::StagedDelete
                    )
                };
                if touches_base(kind) && self.dirt.iter().any(touches_base) {
                    return Ok("skip: base.txt already touched".into());
                }
                let d = self.dir.clone();
                let io = |r: std::io::Result<()>| r.map_err(|e| HarnessError(format!("dirty {kind:?}: {e}")));
                match kind {
                    DirtyKind::Untracked => io(std::fs::write(d.join("untracked.txt"), "u\n"))?,
                    DirtyKind::UntrackedInSubdir => {
                        io(std::fs::create_dir_all(d.join("sub/deeper")))?;
                        io(std::fs::write(d.join("sub/deeper/u.txt"), "u\n"))?
                    }
                    DirtyKind::Modified => io(std::fs::write(d.join("base.txt"), "base\nmodified line\n"))?,
                    DirtyKind::StagedNew => {
                        io(std::fs::write(d.join("staged-new.txt"), "s\n"))?;
                        self.git_ok(&["add", "staged-new.txt"], None, None)?;
                    }
                    DirtyKind::StagedMod => {
                        io(std::fs::write(d.join("stage.txt"), "stage\nstaged modification\n"))?;
                        self.git_ok(&["add", "stage.txt"], None, None)?;
                    }
                    DirtyKind::Deleted => io(std::fs::remove_file(d.join("base.txt")))?,
                    DirtyKind::ModeChange => {
                        use std::os::unix::fs::PermissionsExt;
                        io(std::fs::set_permissions(d.join("base.txt"), std::fs::Permissions::from_mode(0o755)))?
                    }
                    DirtyKind::Renamed => {
                        self.git_ok(&["mv", "base.txt", "renamed base.txt"], None, None)?;
                    }
                    DirtyKind::TypeChange => {
                        io(std::fs::remove_file(d.join("base.txt")))?;
                        io(std::os::unix::fs::symlink("stage.txt", d.join("base.txt")))?;
                    }
                    DirtyKind::WeirdName => io(std::fs::write(d.join("sp ace \"q\" ünï\ttab.txt"), "w\n"))?,
                    DirtyKind::ManyUntracked => {
                        io(std::fs::create_dir_all(d.join("many")))?;
                        for i in 0..300 {
                            io(std::fs::write(d.join(format!("many/file-{i:04}.txt")), "m\n"))?;
                        }
                    }
                    DirtyKind::StagedDelete => {
                        self.git_ok(&["rm", "-q", "base.txt"], None, None)?;
                    }
                    DirtyKind::FilesNamedLikeRefs => {
                        let mut names: Vec<String> = self.live_tags().map(|t| t.name.clone()).collect();
                        names.extend(self.branches.iter().filter(|b| b.alive).map(|b| b.name.clone()));
                        names.push("HEAD".into());
                        // also the range spellings a caller may hand to git
                        let ranges: Vec<String> = self.live_tags().map(|t| format!("{}..HEAD", t.name)).collect();
                        names.extend(ranges);
                        let mut made = 0;
                        for n in names {
                            if n.contains('/') || n.len() > 200 || n == "." || n == ".." || d.join(&n).exists() {
                                continue;
                            }
                            if std::fs::write(d.join(&n), "named like a ref\n").is_ok() {
                                made += 1;
                            }
                        }
                        if made == 0 {
                            return Ok("skip: no ref name usable as a file name".into());
                        }
                    }
                    DirtyKind::SubmoduleContent => {
                        // everything else is cleaned first: the gitlink commit must not pick up staged dirt
                        self.auto_clean()?;
                        let h = self.head_commit().unwrap();
                        self.git_ok(&["init", "-q", "submod"], None, None)?;
                        io(std::fs::write(d.join("submod/f.txt"), "f\n"))?;
                        self.git_ok(&["-C", "submod", "add", "f.txt"], None, None)?;
                        let st = self.git_ok(&["-C", "submod", "write-tree"], None, None)?;
                        let sc = self.git_ok(
                            &["-C", "submod", "commit-tree", &st, "-m", "s0"],
                            Some((1_000_000_000, 1_000_000_000, "+0000")),
                            None,
                        )?;
                        self.git_ok(&["-C", "submod", "update-ref", "HEAD", &sc], None, None)?;
                        let has_link = self
                            .git_ok(&["ls-tree", &self.commits[h].hash.clone(), "submod"], None, None)?
                            .starts_with("160000");
                        if !has_link {
                            let ci = format!("160000,{sc},submod");
                            self.git_ok(&["update-index", "--add", "--cacheinfo", &ci], None, None)?;
                            let tree = self.git_ok(&["write-tree"], None, None)?;
                            let (ct, tz) = self.tick(0, 1);
                            let msg = format!("c{} adds a submodule", self.commits.len());
                            self.new_commit(vec![h], ct, ct, &tz, &tree, &msg)?;
                        }
                        // the only change anywhere is inside the submodule; which one follows from the
                        // world (no extra draw): a modified tracked file, or a new commit (the checked-out
                        // commit differs from the gitlink, its tree is clean).  An untracked file inside
                        // the submodule is deliberately not a state: `git status` and `git diff` disagree
                        // about it, so neither answer could be called a violation of the property.
                        match self.commits.len() % 2 {
                            0 => io(std::fs::write(d.join("submod/f.txt"), "f\nchanged inside the submodule\n"))?,
                            _ => {
                                let s1 = self.git_ok(
                                    &["-C", "submod", "commit-tree", &st, "-p", &sc, "-m", "s1"],
                                    Some((1_000_000_100, 1_000_000_100, "+0000")),
                                    None,
                                )?;
                                self.git_ok(&["-C", "submod", "update-ref", "HEAD", &s1], None, None)?;
                            }
                        }
                    }
                    DirtyKind::IgnoredOnly => io(std::fs::write(d.join("artifact.ign"), "i\n"))?,
                    DirtyKind::UntrackedInIgnoredDir => {
                        io(std::fs::create_dir_all(d.join("ignored-dir")))?;
                        io(std::fs::write(d.join("ignored-dir/u.txt"), "u\n"))?
                    }
                    DirtyKind::EmptyDir => io(std::fs::create_dir_all(d.join("empty-dir/inner")))?,
                    DirtyKind::TouchOnly => {
                        // same content, new inode metadata: stat-dirty but content-clean
                        io(std::fs::remove_file(d.join("base.txt")))?;
                        io(std::fs::write(d.join("base.txt"), "base\n"))?
                    }
                }
                self.dirt.insert(*kind);
                Ok(format!("dirty {kind:?}"))
            }
            Op::Clean => {
                self.do_clean()?;
                Ok("clean".into())
            }
            Op::PackRefs => {
                self.git_ok(&["pack-refs", "--all"], None, None)?;
                Ok("pack-refs".into())
            }
            Op::Gc => {
                self.git_ok(&["gc", "-q"], None, None)?;
                Ok("gc".into())
            }
        }
    }

    // ------------------------------------------------------------------ oracle self-defence

    /// Compare the model with the repository, read through plumbing that zerv does not use.
    /// Any difference is a harness error (exit 2), never a violation.
    pub fn validate(&mut self) -> HResult<()> {
        // HEAD
        let sym = self.git(&["symbolic-ref", "-q", "HEAD"], None, None);
        let head_now = self.head.clone();
        match (&head_now, sym) {
            (Head::Branch(n), Ok(s)) => {
                if s != format!("refs/heads/{n}") {
                    return herr(format!("model HEAD branch {n:?} but repository {s:?}"));
                }
            }
            (Head::Detached(c), Err(_)) => {
                let h = self.git_ok(&["rev-parse", "--verify", "-q", "HEAD"], None, None)?;
                if h != self.commits[*c].hash {
                    return herr(format!("model detached at {} but repository {h}", self.commits[*c].hash));
                }
            }
            (m, r) => return herr(format!("model HEAD {m:?} but repository symbolic-ref says {r:?}")),
        }
        // refs
        let refs = self.git_ok(
            &["for-each-ref", "--format=%(refname)%09%(objecttype)%09%(objectname)%09%(*objectname)"],
            None,
            None,
        )?;
        let mut got_b: BTreeMap<String, String> = BTreeMap::new();
        let mut got_t: BTreeMap<String, (String, String)> = BTreeMap::new();
        let mut tag_names: Vec<(String, String)> = vec![];
        for l in refs.lines() {
            let f: Vec<&str> = l.split('\t').collect();
            if f.len() < 3 {
                continue;
            }
            if let Some(n) = f[0].strip_prefix("refs/heads/") {
                got_b.insert(n.to_string(), f[2].to_string());
            } else if let Some(n) = f[0].strip_prefix("refs/tags/") {
                if f[1] == "tree" {
                    if !self.tree_tags.iter().any(|(tn, th)| tn == n && th == f[2]) {
                        return herr(format!("repository has tree tag {n:?} unknown to the model"));
                    }
                    continue;
                }
                tag_names.push((n.to_string(), f[1].to_string()));
            }
        }
        if !tag_names.is_empty() {
            // peel every tag all the way down to its commit (nested tags need more than one level)
            let input: String = tag_names.iter().map(|(n, _)| format!("refs/tags/{n}^{{commit}}\n")).collect();
            let out = self.git_ok(&["cat-file", "--batch-check"], None, Some(input.as_bytes()))?;
            for ((n, ty), l) in tag_names.iter().zip(out.lines()) {
                let sha = l.split(' ').next().unwrap_or("").to_string();
                got_t.insert(n.clone(), (ty.clone(), sha));
            }
        }
        let want_b: BTreeMap<String, String> = self
            .branches
            .iter()
            .filter(|b| b.alive)
            .map(|b| (b.name.clone(), self.commits[b.tip].hash.clone()))
            .collect();
        if want_b != got_b {
            return herr(format!("model branches {want_b:?} but repository {got_b:?}"));
        }
        let want_t: BTreeMap<String, (String, String)> = self
            .live_tags()
            .map(|t| {
                let ty = if t.kind == TagKind::Light { "commit" } else { "tag" };
                (t.name.clone(), (ty.to_string(), self.commits[t.target].hash.clone()))
            })
            .collect();
        if want_t != got_t {
            return herr(format!("model tags {want_t:?} but repository {got_t:?}"));
        }
        // commit objects: parents and dates straight from the object store
        let mut input = String::new();
        for c in &self.commits {
            input.push_str(&c.hash);
            input.push('\n');
        }
        if !self.commits.is_empty() {
            let out = self.git_ok(&["cat-file", "--batch"], None, Some(input.as_bytes()))?;
            let mut it = out.lines().peekable();
            for (i, c) in self.commits.iter().enumerate() {
                // header: "<sha> commit <size>"
                let mut parents = vec![];
                let mut ctime = None;
                let mut atime = None;
                let mut found = false;
                while let Some(l) = it.next() {
                    if l.starts_with(&c.hash) && l.contains(" commit ") {
                        found = true;
                        break;
                    }
                    if l.starts_with(&c.hash) && l.ends_with(" missing") {
                        break;
                    }
                }
                if !found {
                    // pruned objects can only be unreachable ones
                    continue;
                }
                while let Some(l) = it.peek() {
                    if l.is_empty() {
                        break;
                    }
                    let l = it.next().unwrap();
                    if let Some(p) = l.strip_prefix("parent ") {
                        parents.push(p.to_string());
                    } else if l.starts_with("committer ") || l.starts_with("author ") {
                        let w: Vec<&str> = l.split(' ').collect();
                        let t = w.get(w.len().wrapping_sub(2)).and_then(|x| x.parse::<i64>().ok());
                        if l.starts_with("committer ") {
                            ctime = t;
                        } else {
                            atime = t;
                        }
                    }
                }
                let want_p: Vec<String> = c.parents.iter().map(|&p| self.commits[p].hash.clone()).collect();
                if parents != want_p {
                    return herr(format!("commit #{i}: model parents {want_p:?}, object {parents:?}"));
                }
                if ctime != Some(c.ctime) || atime != Some(c.atime) {
                    return herr(format!(
                        "commit #{i}: model times a={} c={}, object a={atime:?} c={ctime:?}",
                        c.atime, c.ctime
                    ));
                }
            }
        }
        // work tree
        if self.head_commit().is_some() {
            let unstaged = self.git(&["diff", "--quiet"], None, None).is_err();
            let staged = self.git(&["diff", "--cached", "--quiet"], None, None).is_err();
            let others = !self.git_ok(&["ls-files", "--others", "--exclude-standard"], None, None)?.is_empty();
            let repo_dirty = unstaged || staged || others;
            if repo_dirty != self.is_dirty() {
                return herr(format!(
                    "model dirty={} ({:?}) but repository unstaged={unstaged} staged={staged} untracked={others}",
                    self.is_dirty(),
                    self.dirt
                ));
            }
        }
        Ok(())
    }

    /// canonical description of the current world state up to renaming (for distinct-state counts)
    pub fn shape_key(&self, fmt: &str) -> String {
        let Some(h) = self.head_commit() else { return format!("unborn|{fmt}") };
        let anc = self.ancestors(h);
        // canonical numbering: BFS order from HEAD
        let mut order: Vec<usize> = vec![];
        let mut queue = std::collections::VecDeque::from([h]);
        let mut seen = BTreeSet::new();
        while let Some(x) = queue.pop_front() {
            if seen.insert(x) {
                order.push(x);
                for &p in &self.commits[x].parents {
                    queue.push_back(p);
                }
            }
        }
        let idx: BTreeMap<usize, usize> = order.iter().enumerate().map(|(i, &c)| (c, i)).collect();
        let mut s = String::new();
        for &c in &order {
            let ps: Vec<String> = self.commits[c].parents.iter().map(|p| idx[p].to_string()).collect();
            let mut classes: Vec<String> = self
                .tags_on(c)
                .iter()
                .map(|t| {
                    let sv = ver::parse_semver(&t.name).is_some();
                    let pv = ver::parse_pep440(&t.name).is_some();
                    format!("{}{}{}", if sv { "s" } else { "" }, if pv { "p" } else { "" }, if !sv && !pv { "n" } else { "" })
                })
                .collect();
            classes.sort();
            s.push_str(&format!("{}<{}>[{}];", idx[&c], ps.join(","), classes.join(",")));
        }
        let off = self.live_tags().filter(|t| !anc.contains(&t.target)).count();
        let hk = match &self.head {
            Head::Branch(_) => "b",
            Head::Detached(_) => "d",
        };
        let dk: Vec<String> = self.dirt.iter().map(|d| format!("{d:?}")).collect();
        format!("{s}|off{off}|{hk}|{}|{fmt}", dk.join("+"))
    }
}
