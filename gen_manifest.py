#!/usr/bin/env python3
"""Writes MANIFEST.json from one table, so that it stays valid while engines are added."""
import json, sys

BASELINE = ("cd /repo && cargo nextest run --workspace --no-fail-fast --tool-config-file pb:/w/lib/nextest.toml "
            "--profile pb --test-threads 8 --offline")

CLAIMED = {
 "C02": dict(
   level="exploration",
   technique="deterministic simulation: seeded repository histories (real git, skewed actor clocks, benign git-proxy perturbations) judged against a reference model",
   text=("Seeded history simulation: developer actors with skewed clocks build a real repository with the real git (commit / branch / checkout / "
         "detach / merge incl. octopus and criss-cross / ff / orphan roots / tag light+annotated+nested, on tree objects, sibling tags sharing one X.Y.Z / delete / "
         "reset / amend / 18 work-tree states incl. renames, type changes, odd file names, files named like refs, a submodule dirty only inside its own work tree / pack-refs / gc); the real "
         "zerv binary, reaching git only through a tracing and perturbing proxy and reading a simulated wall clock, is observed with "
         "--output-format zerv and every reported fact (base tag nearest + maximal, release numbers, distance, dirty, branch, hashes, times, "
         "no-valid-tag failure) is compared with a small executable reference model that knows nothing about git commands; metamorphic "
         "re-observations (shuffled/padded git output, packed refs, other cwd spelling, a linked work tree). Sampling, not proof: a clean batch is evidence."),
   note=("Trusts git 2.39.5 as the other party, the reference model (cross-validated against the repository through plumbing zerv does not use; "
         "mismatch = harness error), the independent SemVer/PEP 440 comparators (unit-tested against the specifications' example chains) and the "
         "tag-name table whose validity classes are fixed by construction."),
   design="DESIGN.md §3, §4 C02"),
 "C13": dict(
   level="fault_enumeration",
   technique="deterministic simulation with fault injection: every git invocation x every fault kind enumerated through a git proxy, storage / stdin / cwd / PATH faults, seeded adversarial argv",
   text=("Per seeded scenario (world state x command) the fault-free run is traced through the git proxy and then every git invocation index x every one "
         "of 32 fault kinds (error exits with 13 real git messages, empty / non-numeric / negative / huge / non-UTF-8 / NUL / 1 MB outputs, torn output, junk "
         "lines, SIGKILL, SIGSEGV) is executed - enumerated, not sampled - plus persistent faults (every error kind on every call of one sub-command and on "
         "all calls; a 400-call step budget turns a retry loop into a deterministic liveness violation), whole-run faults (git missing / not executable / a "
         "directory / ENOEXEC), 2-3 fault sequences, storage corruption (9 targets x 5 manners, errors produced by the real git), stdin faults (closed fd, "
         "directory fd, invalid UTF-8, NUL, torn, 10 MB), stdout and stderr faults (reader gone: EPIPE; /dev/full: ENOSPC), cwd faults (deleted cwd, -C to "
         "file / missing / empty / .git, non-UTF-8 argv), interleaved repository mutations at every invocation index (thorough), and an argv workload from "
         "the flag set the binary reports: a systematic part (every value of every adversarial class once on an otherwise valid command: long and "
         "multi-byte strings, numeric edges, bad templates, deeply nested templates / RON / JSON, function x value x length grids) and a seeded random "
         "part. Oracle per child: exit 0 with the result only on stdout (one line for semver/pep440, one RON document for zerv; byte-identical stdout and "
         "status under -v, RUST_LOG=trace, RUST_LOG=off, ZERV_FORCE_RUST_LOG_OFF, a foreign or invalid filter), "
         "or exit != 0 with empty stdout and a diagnostic; exit 101, 'panicked at', death by signal, watchdog or step-budget overrun are violations."),
   note=("Scenarios, argv and multi-fault sequences are sampled; only git-invocation x fault-kind is exhaustive per scenario. Trusts the proxy trace for "
         "'fault fired', git 2.39.5 for storage errors, and an 8 GiB RLIMIT_AS to turn runaway allocations into aborts."),
   design="DESIGN.md §3.3, §4 C13"),
 "C14": dict(
   level="exploration",
   technique="deterministic simulation: environment-perturbation replay under a simulated wall clock (TZ, locale, cwd spelling, unrelated variables, repetition) against a reference execution and an independent UTC calendar",
   text=("Per seeded scenario (repository history built with real git, or a stdin document, or overrides; one argv; one simulated instant placed near a UTC "
         "midnight / year end / 29 February) a reference execution is compared byte for byte (stdout and exit status) with 10-14 perturbed executions in "
         "fresh processes: TZ (named zones incl. +14:00 / -11:00 / +5:30, POSIX forms, garbage), LANG / LC_ALL / LC_TIME, twelve cwd / -C spellings (root, "
         "sub-directory, relative, trailing slash, symlink, `.`, `x/..`, a symlinked cwd with a consistent PWD and a relative -C containing `..`, -C pointing "
         "at a sub-directory), 5-30 unrelated but tempting variables (SOURCE_DATE_EPOCH, CI, GITHUB_REF_NAME, ZERV_*...), HOME unset, and at least ten plain "
         "repetitions (a per-process random choice is reported once, as `repeat`). The clock seam turns the "
         "property's exception into a checked statement: at a second instant the output may differ only for dirty / ahead-in-tag-mode states or templates "
         "naming current_timestamp. Date-derived components (format_timestamp, calver preset, ts() components) are compared with an independent UTC "
         "calendar under every TZ of the scenario; the hash-derived branch id is covered by byte equality across processes."),
   note=("Sampling of argv shapes and histories; only locales C / C.utf8 / POSIX are installed (others exercise libc's failure path); templates that ask for "
         "nondeterminism (now, get_random, get_env) are excluded by construction; GIT_* and RUST_LOG are related variables and are not perturbed."),
   design="DESIGN.md §4 C14"),
 "C12": dict(
   level="exploration",
   technique="deterministic simulation: two-process pipeline with the simulator as the pipe (seeded chunking, clock advance between hops, truncation / bit flip / drop / duplication / schema rewrite faults)",
   text=("The simulator runs a real zerv producer (version / flow on simulated git histories, on --source none with hostile overrides, or a literal document) "
         "to completion, then delivers its Zerv RON bytes in seeded chunks to 1-3 real consumer hops at a frozen and at an advanced simulated instant: "
         "re-emission must be byte-identical and semver / pep440 / template renderings through the pipe must equal the direct ones. Then 12-26 damaged "
         "deliveries per document (truncation at any byte, bit flip, dropped / duplicated span, 14 structural schema rewrites) must be refused cleanly or, "
         "if accepted, yield a placement-valid object that is a fixed point of a further hop; a rewrite that violates the placement rules (judged by an "
         "independent validator written from the property text) must be refused; text before / after an intact document (junk, a second document, BOM, "
         "NUL - comments must still be accepted) and pairs of rewrites (a placement edit plus an edit of the precedence list) are covered too. Every emitted "
         "object is read back by an independent RON reader and passes the validator."),
   note=("The all-field-values reading is covered only as far as the producers reach; structural rewrites are document mutation (input generation) and "
         "labelled so in the evidence. Known finding KF-C12-dirty-restamp (dirty objects are re-stamped when the clock advanced) is listed in "
         "known_findings.json and identified narrowly."),
   design="DESIGN.md §4 C12, §5.1"),
 "C03": dict(
   level="exploration",
   technique="deterministic simulation: seeded GitFlow / trunk workflow histories observed with `zerv flow` under a simulated wall clock, judged by independent SemVer / PEP 440 comparators with the clause chosen from a reference model",
   text=("Seeded workflow actors (branch, commit with skewed clocks, dirty / clean, merge, fast-forward, detach, reset, release = tag HEAD with the public part "
         "of flow's own output, next final release) drive a real repository starting from a random final tag; one flag set per run (11 standard presets, post "
         "mode, hash length 1-10, default / custom branch rules, label / number overrides). At every observation point the real `zerv flow` is run for semver and "
         "pep440 at the simulated instant (dev.<SIM_NOW> across [0, 2^32)), followed by an override-only family (`--source none`: dirty unset / --dirty / "
         "--no-dirty / --clean, distance ladders, release chains built from flow's own output) under the same flags and clock, and judged: exact X.Y.Z at a clean final tag; X.Y.Z < V < X.Y.(Z+1) for every other "
         "state; strictly greater with more commits on the same branch / tag / first-parent chain in commit post-mode; a pre-release tag of flow's shapes printed "
         "unchanged. Which clause applies is decided from the reference model (C02's oracle), the order by comparators written from SemVer 2.0.0 §11 and PEP 440."),
   note=("Sampling. Clauses are evaluated only where the model says the base tag is unique and (clause 3) the post mode is known to be `commit`. 21 known findings "
         "(fixed presets that project components away or always append context, and --hash-branch-len 10) are listed in known_findings.json, each keyed by "
         "clause + preset (+ format); every other preset, clause and state still alarms."),
   design="DESIGN.md §4 C03, §5.2, §5.4"),
}

NA = {
 "C01": "pure function of (variables, schema, flags): no schedule, clock, fault or history in it; deciding it is input generation, not simulation",
 "C04": "pure function of (tag, branch name, distance, dirty, flags) on sources none/stdin; nothing for a simulator to schedule or fail",
 "C05": "pure; permuting flags on one command line is an input permutation, not an interleaving",
 "C06": "pure function of (schema, vars)",
 "C07": "pure string-to-string conversions",
 "C08": "pure parser/printer; best decided by exhaustive short-string enumeration against the grammar",
 "C09": "pure parser/printer; same remark",
 "C10": "pure order relation on values (its one system-level consequence is exercised inside C02's max-tag oracle under shuffled git output)",
 "C11": "pure order relation on values (same remark)",
 "C15": "pure function of (object, template)",
 "C16": "pure string function",
 "C17": "pure function of an integer; the UTC-not-local-time clause is decided under C14",
 "C18": "finite static keyword-to-flag table between two source files; no schedule, clock, history or fault sequence enters it",
}
PENDING = {
 "C03": "simulation target (workflow histories + simulated clock); engine not built yet in this revision",
 "C12": "simulation target (two-process pipeline, clock between hops, transport faults); engine not built yet in this revision",
 "C13": "simulation target (fault enumeration at every git invocation, stdin/cwd/storage faults); engine not built yet in this revision",
 "C14": "simulation target (environment-perturbation replay under a simulated clock); engine not built yet in this revision",
}

def main():
    checks = []
    for pid, c in sorted(CLAIMED.items()):
        checks.append({
            "property_id": pid,
            "quick_cmd": f"./check {pid} quick",
            "thorough_cmd": f"./check {pid} thorough",
            "evidence_file": f"/verif/evidence/{pid}.json",
            "replay_cmd_template": "./check replay {path}",
            "engine": "zsim",
            "level_claimed": {"category": c["level"], "text": c["text"], "design_ref": c["design"]},
            "level_note": c["note"],
            "technique": c["technique"],
        })
    na = [{"property_id": k, "reason": v} for k, v in sorted({**NA, **{k: v for k, v in PENDING.items() if k not in CLAIMED}}.items())]
    m = {
        "version": 1,
        "setup_cmd": "./setup",
        "hooks": {
            "guard": "zerv_verif",
            "enable": "none needed: zerv already has the seams (git resolved through PATH, dynamically linked libc clock, stdio, environment); checks build /repo unmodified with `cargo build --offline --bin zerv`",
            "baseline_off_cmd": BASELINE,
            "source_commits": [],  # no hook commits: the seams already exist (PATH lookup of git, dynamic libc clock, stdio, environment)
            "add_only": True,
        },
        "engines": [{
            "name": "zsim", "path": "zsim/",
            "serves_properties": sorted(CLAIMED.keys()),
            "kind_free_text": "multi-process deterministic simulator: seeded scenarios, git proxy (trace / benign perturbation / fault / interleaved mutation / step budget), LD_PRELOAD clock shim, owned stdin/env/cwd, reference model oracle, minimiser, replay files",
        }],
        "checks": checks,
        "not_applicable": na,
        "notes": "All checks honour VERIF_SEED (default 1). Exit 0 held / only KNOWN-FINDING lines; 1 VIOLATION; 2 harness error. Known findings: known_findings.json.",
    }
    json.dump(m, open("MANIFEST.json", "w"), indent=1)
    print("MANIFEST.json written:", len(checks), "checks,", len(na), "not applicable")

main()
