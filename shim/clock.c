/* Clock seam for zerv (DESIGN.md §1 N3).
 *
 * zerv is dynamically linked against glibc; chrono::Utc::now() ends in
 * clock_gettime(CLOCK_REALTIME) through the PLT.  Pre-loading this object makes
 * every wall-clock read of the process return SIM_NOW (seconds since the epoch,
 * decimal, may be negative) and SIM_NSEC (default 0).  The clock is frozen for
 * the lifetime of one process: simulated time only advances between processes,
 * under the simulator's control.  Monotonic clocks are passed through.
 *
 * Without SIM_NOW in the environment the shim is transparent.
 */
#define _GNU_SOURCE
#include <dlfcn.h>
#include <stdlib.h>
#include <sys/time.h>
#include <time.h>

static int sim_now(long long *sec, long *nsec) {
    const char *s = getenv("SIM_NOW");
    if (!s || !*s) return 0;
    *sec = strtoll(s, 0, 10);
    const char *n = getenv("SIM_NSEC");
    *nsec = (n && *n) ? strtol(n, 0, 10) : 0;
    return 1;
}

int clock_gettime(clockid_t id, struct timespec *ts) {
    static int (*real)(clockid_t, struct timespec *);
    long long s; long ns;
    if ((id == CLOCK_REALTIME || id == CLOCK_REALTIME_COARSE) && sim_now(&s, &ns)) {
        ts->tv_sec = (time_t)s;
        ts->tv_nsec = ns;
        return 0;
    }
    if (!real) real = (int (*)(clockid_t, struct timespec *))dlsym(RTLD_NEXT, "clock_gettime");
    return real(id, ts);
}

int gettimeofday(struct timeval *tv, void *tz) {
    static int (*real)(struct timeval *, void *);
    long long s; long ns;
    if (tv && sim_now(&s, &ns)) {
        tv->tv_sec = (time_t)s;
        tv->tv_usec = ns / 1000;
        return 0;
    }
    if (!real) real = (int (*)(struct timeval *, void *))dlsym(RTLD_NEXT, "gettimeofday");
    return real(tv, tz);
}

time_t time(time_t *out) {
    static time_t (*real)(time_t *);
    long long s; long ns;
    if (sim_now(&s, &ns)) {
        if (out) *out = (time_t)s;
        return (time_t)s;
    }
    if (!real) real = (time_t (*)(time_t *))dlsym(RTLD_NEXT, "time");
    return real(out);
}
